-------------------------------- MODULE Addr --------------------------------
(***************************************************************************)
(* Addresses, their text, netmasks (properties C12, C13; also used by C09). *)
(*                                                                         *)
(* Layer A (contract, independent of the C code):                          *)
(*   Canon, Denote, PrefixEq, MaskForm (FormAt / Render / Doc)             *)
(* Layer B (implementation-shaped, transcribed from modules/iauth_misc.c): *)
(*   NtopAlgo (irc_ntop), CheckMaskAlgo (irc_check_mask),                  *)
(*   PtonAlgo / PtonIp4 (irc_pton / irc_pton_ip4)                          *)
(* Domains shared by the model runs and the harness (harness/h_addr.c):    *)
(*   PatAddr, V4Addr, EdgeAddr, MaskCase, StrAt, FormAt                    *)
(*                                                                         *)
(* An address is an 8-tuple of 0..65535 (host order group values).  Text   *)
(* is a sequence of character codes.  Bad == <<>> is "no address".         *)
(***************************************************************************)
EXTENDS Integers, Sequences, FiniteSets, Bitwise

CONSTANT Bug      \* subset of {"D5", "NOZERO", "M1", "M2", ...}: re-introduces a defect into layer B

-----------------------------------------------------------------------------
(* characters *)
Colon == 58
Dot   == 46
Slash == 47
Star  == 42
Space == 32
Zero  == 48

Bad == <<>>

IsDigit(c) == c \in 48..57
HexVal(c) == IF c \in 48..57 THEN c - 48
             ELSE IF c \in 97..102 THEN c - 87
             ELSE IF c \in 65..70 THEN c - 55
             ELSE -1

HexDigit(v)  == IF v < 10 THEN 48 + v ELSE 87 + v      \* lower case
HexDigitU(v) == IF v < 10 THEN 48 + v ELSE 55 + v      \* upper case

Zeros(n) == [i \in 1..n |-> 0]

-----------------------------------------------------------------------------
(* A.1  Canon: IPv4-compatible -> IPv4-mapped.                                *)
(* "IPv4" in the sense of the irc_inaddr_is_ipv4 macro: the first 80 bits are *)
(* zero, group 6 is 0 (compatible) or ffff (mapped) and the upper half of the *)
(* embedded IPv4 address is not zero (so ::, ::1, ::ffff:0.0.x.y stay IPv6).  *)
IsV4(a) == /\ a[1] = 0 /\ a[2] = 0 /\ a[3] = 0 /\ a[4] = 0 /\ a[5] = 0
           /\ a[6] \in {0, 65535}
           /\ a[7] # 0

Canon(a) == IF IsV4(a) THEN [a EXCEPT ![6] = 65535] ELSE a

IsAddr(a) == /\ Len(a) = 8
             /\ \A i \in 1..8 : a[i] \in 0..65535

-----------------------------------------------------------------------------
(* A.2  Denote: an independent reader of textual addresses (RFC 4291 2.2:    *)
(* 8 groups of 1-4 hex digits, at most one "::" standing for >= 1 zero       *)
(* groups, optional dotted-quad for the last 32 bits; a bare dotted quad is  *)
(* the IPv4-mapped address).  Same acceptance as inet_pton.                  *)

RECURSIVE Split(_, _)
Split(s, sep) ==
    IF \A i \in 1..Len(s) : s[i] # sep THEN << s >>
    ELSE LET p == CHOOSE i \in 1..Len(s) : s[i] = sep /\ \A j \in 1..(i-1) : s[j] # sep
         IN  << SubSeq(s, 1, p - 1) >> \o Split(SubSeq(s, p + 1, Len(s)), sep)

HexField(f) ==
    IF Len(f) \in 1..4 /\ \A i \in 1..Len(f) : HexVal(f[i]) >= 0
    THEN LET n == Len(f)
         IN  (IF n >= 1 THEN HexVal(f[n]) ELSE 0)
           + (IF n >= 2 THEN 16 * HexVal(f[n-1]) ELSE 0)
           + (IF n >= 3 THEN 256 * HexVal(f[n-2]) ELSE 0)
           + (IF n >= 4 THEN 4096 * HexVal(f[n-3]) ELSE 0)
    ELSE -1

DecField(f) ==       \* decimal octet: 1-3 digits, no leading zero, <= 255
    IF Len(f) \in 1..3 /\ (\A i \in 1..Len(f) : IsDigit(f[i])) /\ (Len(f) = 1 \/ f[1] # Zero)
    THEN LET n == Len(f)
             v == (f[n] - 48) + (IF n >= 2 THEN 10 * (f[n-1] - 48) ELSE 0)
                              + (IF n >= 3 THEN 100 * (f[n-2] - 48) ELSE 0)
         IN  IF v <= 255 THEN v ELSE -1
    ELSE -1

Quad(f) ==           \* two group values, or <<-1>>
    LET fs == Split(f, Dot)
    IN  IF Len(fs) = 4 /\ \A i \in 1..4 : DecField(fs[i]) >= 0
        THEN << 256 * DecField(fs[1]) + DecField(fs[2]), 256 * DecField(fs[3]) + DecField(fs[4]) >>
        ELSE << -1 >>

GroupsOf(txt, allowQuad) ==    \* group values written in txt (no "::" inside); -1 marks a malformed field
    IF txt = << >> THEN << >>
    ELSE LET fs   == Split(txt, Colon)
             n    == Len(fs)
             isq  == allowQuad /\ \E i \in 1..Len(fs[n]) : fs[n][i] = Dot
             hn   == IF isq THEN n - 1 ELSE n
         IN  [i \in 1..hn |-> HexField(fs[i])] \o (IF isq THEN Quad(fs[n]) ELSE << >>)

ValidGroups(g) == \A i \in 1..Len(g) : g[i] >= 0

Denote(s) ==
    LET n    == Len(s)
        gaps == {i \in 1..(n - 1) : s[i] = Colon /\ s[i + 1] = Colon}
    IN  IF \A i \in 1..n : s[i] # Colon
        THEN LET q == Quad(s)
             IN  IF Len(q) = 2 THEN << 0, 0, 0, 0, 0, 65535, q[1], q[2] >> ELSE Bad
        ELSE IF gaps = {}
        THEN LET g == GroupsOf(s, TRUE)
             IN  IF Len(g) = 8 /\ ValidGroups(g) THEN g ELSE Bad
        ELSE IF Cardinality(gaps) > 1 THEN Bad
        ELSE LET p == CHOOSE i \in gaps : TRUE
                 L == GroupsOf(SubSeq(s, 1, p - 1), FALSE)
                 R == GroupsOf(SubSeq(s, p + 2, n), TRUE)
             IN  IF ValidGroups(L) /\ ValidGroups(R) /\ Len(L) + Len(R) <= 7
                 THEN L \o Zeros(8 - Len(L) - Len(R)) \o R
                 ELSE Bad

-----------------------------------------------------------------------------
(* A.3  PrefixEq: the leading n bits of a and m are equal (bit 0 = most       *)
(* significant bit of group 1).                                               *)
BitOf(a, j) == (a[(j \div 16) + 1] \div (2 ^ (15 - (j % 16)))) % 2

PrefixEq(a, m, n) == \A j \in 0..(n - 1) : BitOf(a, j) = BitOf(m, j)

(* The same by groups (TLC checks the equivalence, MCAddrMask); used where    *)
(* 129 lengths are evaluated per trace line.                                  *)
GroupBits(n, i) == LET k == n - 16 * (i - 1) IN IF k <= 0 THEN 0 ELSE IF k >= 16 THEN 16 ELSE k
PrefixEqG(a, m, n) ==
    \A i \in 1..8 : LET sh == 2 ^ (16 - GroupBits(n, i)) IN (a[i] \div sh) = (m[i] \div sh)

(* number of leading equal bits (128 when a = m) *)
FirstDiff(a, m) ==
    IF a = m THEN 128
    ELSE LET g == CHOOSE i \in 1..8 : a[i] # m[i] /\ \A k \in 1..(i - 1) : a[k] = m[k]
             x == a[g] ^^ m[g]
             b == CHOOSE k \in 0..15 : x \div (2 ^ (15 - k)) = 1     \* index of the top set bit, from the left
         IN  16 * (g - 1) + b

-----------------------------------------------------------------------------
(* B.1  irc_ntop (modules/iauth_misc.c), transcribed.                         *)

DecText(v) == IF v >= 100 THEN << 48 + (v \div 100), 48 + ((v \div 10) % 10), 48 + (v % 10) >>
              ELSE IF v >= 10 THEN << 48 + (v \div 10), 48 + (v % 10) >>
              ELSE << 48 + v >>

HexText(part) ==     \* the four conditional APPENDs
       (IF part >= 4096 THEN << HexDigit(part \div 4096) >> ELSE << >>)
    \o (IF part >= 256 THEN << HexDigit((part \div 256) % 16) >> ELSE << >>)
    \o (IF part >= 16 THEN << HexDigit((part \div 16) % 16) >> ELSE << >>)
    \o << HexDigit(part % 16) >>

(* irc_inaddr_is_ipv4 *)
MacroIsIpv4(a) == IF "V4A" \in Bug     \* mutant: in6[6] test dropped
                  THEN a[1] = 0 /\ a[2] = 0 /\ a[3] = 0 /\ a[4] = 0 /\ a[5] = 0 /\ a[6] \in {0, 65535}
                  ELSE IsV4(a)

(* "Find longest run of zeros": st = [ms |-> max_start, mz |-> max_zeros, cz |-> curr_zeros] *)
ZeroStep(st, ii, a) ==
    IF a[ii + 1] = 0 THEN [st EXCEPT !.cz = @ + 1]
    ELSE IF st.cz > st.mz THEN [ms |-> ii - st.cz, mz |-> st.cz, cz |-> 0]
    ELSE IF "D5" \in Bug THEN st                 \* original code: count not reset
    ELSE [st EXCEPT !.cz = 0]

RECURSIVE ZeroLoop(_, _, _)
ZeroLoop(st, ii, a) == IF ii < 8 THEN ZeroLoop(ZeroStep(st, ii, a), ii + 1, a)
                       ELSE IF st.cz > st.mz THEN [ms |-> ii - st.cz, mz |-> st.cz, cz |-> st.cz]
                       ELSE st

LongestZeroRun(a) == ZeroLoop([ms |-> 0, mz |-> 0, cz |-> 0], 0, a)

RECURSIVE PrintLoop(_, _, _, _)
PrintLoop(a, ii, ms, mz) ==
    IF ii >= 8 THEN << >>
    ELSE IF mz > (IF "D16" \in Bug THEN 0 ELSE 1) /\ ii = ms        \* D16: original code compressed a single zero group
    THEN (IF ii = 0 /\ "NOZERO" \notin Bug THEN << Zero, Colon >> ELSE IF ii = 0 THEN << Colon >> ELSE << >>)
         \o << Colon >> \o PrintLoop(a, ii + mz, ms, mz)          \* ii += max_zeros - 1; continue
    ELSE HexText(a[ii + 1]) \o (IF ii < 7 THEN << Colon >> ELSE << >>) \o PrintLoop(a, ii + 1, ms, mz)

NtopAlgo(a) ==
    IF MacroIsIpv4(a)
    THEN DecText(a[7] \div 256) \o << Dot >> \o DecText(a[7] % 256) \o << Dot >>
         \o DecText(a[8] \div 256) \o << Dot >> \o DecText(a[8] % 256)
    ELSE LET z == LongestZeroRun(a) IN PrintLoop(a, 0, z.ms, z.mz)

IRC_NTOP_MAX == 40

-----------------------------------------------------------------------------
(* B.2  irc_check_mask, transcribed.                                          *)
RECURSIVE CheckMaskLoop(_, _, _, _)
CheckMaskLoop(a, m, ii, bits) ==
    IF ii < 8 /\ (IF "M1" \in Bug THEN bits >= 16 ELSE bits > 16)
    THEN IF a[ii + 1] # m[ii + 1] THEN 0 ELSE CheckMaskLoop(a, m, ii + 1, bits - 16)
    ELSE IF /\ ii < 8
            /\ bits > 0
            /\ (a[ii + 1] ^^ m[ii + 1]) \div (2 ^ (IF "M2" \in Bug THEN 17 - bits ELSE 16 - bits)) # 0
         THEN 0
         ELSE 1

CheckMaskAlgo(a, m, bits) == CheckMaskLoop(a, m, 0, bits)

-----------------------------------------------------------------------------
(* B.3  irc_pton_ip4 / irc_pton, transcribed.  Text is 0-indexed as in C;     *)
(* Ch(s, pos) is input[pos] with the terminating NUL.  Results carry `ub`:    *)
(* TRUE when the C code would shift by a negative amount, read the            *)
(* uninitialised ip4 or wrap a decimal number (result unspecified; such cases *)
(* are exempt from the model/code comparison).                                *)
Ch(s, pos) == IF pos + 1 <= Len(s) THEN s[pos + 1] ELSE 0
Unset == 9999                      \* what the harness stores in *bits beforehand
IsSpace(c) == c \in {9, 10, 11, 12, 13, 32}

RECURSIVE SkipWhile(_, _, _)
SkipWhile(s, pos, c) == IF Ch(s, pos) = c THEN SkipWhile(s, pos + 1, c) ELSE pos
RECURSIVE SkipSpace(_, _)
SkipSpace(s, pos) == IF IsSpace(Ch(s, pos)) THEN SkipSpace(s, pos + 1) ELSE pos
RECURSIVE SkipDigits(_, _)
SkipDigits(s, pos) == IF IsDigit(Ch(s, pos)) THEN SkipDigits(s, pos + 1) ELSE pos
RECURSIVE DecNum(_, _, _)          \* value of the digits s[from..to-1] (0-indexed), capped to avoid overflow
DecNum(s, from, to) == IF from >= to THEN 0
                       ELSE LET v == DecNum(s, from, to - 1) IN IF v > 100000 THEN v ELSE v * 10 + (Ch(s, to - 1) - 48)

(* To stay inside TLC's 32-bit integers the address is accumulated as two 16-bit halves. *)
Ip4OrH(st) ==
    IF st.dots > 3 THEN [st EXCEPT !.ub = TRUE, !.dots = @ + 1]
    ELSE [st EXCEPT !.hi = IF st.dots = 0 THEN @ + 256 * st.part ELSE IF st.dots = 1 THEN @ + st.part ELSE @,
                    !.lo = IF st.dots = 2 THEN @ + 256 * st.part ELSE IF st.dots = 3 THEN @ + st.part ELSE @,
                    !.dots = @ + 1]

RECURSIVE Ip4Loop(_, _, _, _)
Ip4Loop(s, hb, tr, st) ==
    LET c   == Ch(s, st.pos)
        out(st1, bits) == LET st2 == Ip4OrH(st1)
                          IN  [len |-> st2.pos, hi |-> st2.hi, lo |-> st2.lo, bits |-> IF hb THEN bits ELSE Unset, ub |-> st2.ub]
        fail == [len |-> 0, hi |-> 0, lo |-> 0, bits |-> Unset, ub |-> FALSE]
    IN  IF c = Dot
        THEN IF Ch(s, st.pos + 1) = Dot THEN fail
             ELSE LET st1 == [Ip4OrH(st) EXCEPT !.pos = st.pos + 1, !.part = 0]
                  IN  IF Ch(s, st1.pos) = Star
                      THEN LET e == SkipWhile(s, st1.pos + 1, Star)
                           IN  IF Ch(s, e) # 0 THEN fail
                               ELSE [len |-> e, hi |-> st1.hi, lo |-> st1.lo, bits |-> IF hb THEN st1.dots * 8 ELSE Unset, ub |-> st1.ub]
                      ELSE Ip4Loop(s, hb, tr, st1)
        ELSE IF c = Slash
        THEN IF ~hb /\ tr THEN out(st, 32)
             ELSE IF ~hb \/ ~IsDigit(Ch(s, st.pos + 1)) THEN fail
             ELSE LET e == SkipDigits(s, st.pos + 1)
                      v == DecNum(s, st.pos + 1, e)
                  IN  IF e - st.pos - 1 > 9 THEN [fail EXCEPT !.ub = TRUE]        \* the C number would wrap
                      ELSE IF v > 32 THEN fail
                      ELSE out([st EXCEPT !.pos = e], v)
        ELSE IF IsDigit(c)
        THEN LET p == st.part * 10 + (c - 48)
             IN  IF p > (IF "P255" \in Bug THEN 999999 ELSE 255) THEN fail
                 ELSE Ip4Loop(s, hb, tr, [st EXCEPT !.part = p, !.pos = @ + 1])
        ELSE IF st.dots < 3 THEN fail
        ELSE out(st, 32)

PtonIp4(s, hb, tr) ==
    IF Ch(s, 0) = Dot THEN [len |-> 0, hi |-> 0, lo |-> 0, bits |-> Unset, ub |-> FALSE]
    ELSE Ip4Loop(s, hb, tr, [dots |-> 0, pos |-> 0, part |-> 0, hi |-> 0, lo |-> 0, ub |-> FALSE])

FirstIndex(s, c) == IF \E i \in 1..Len(s) : s[i] = c
                    THEN (CHOOSE i \in 1..Len(s) : s[i] = c /\ \A j \in 1..(i - 1) : s[j] # c) - 1
                    ELSE -1

PtonFail(ub) == [ret |-> 0, addr |-> Zeros(8), bits |-> Unset, ub |-> ub]

(* "Shift stuff after :: up and fill middle with zeros", then the trailing-text test *)
PtonFinish(s, tr, st) ==
    LET ii   == st.ii
        cpos == st.cpos
        moved == IF cpos < 8
                 THEN [k \in 1..8 |->
                         IF k - 1 >= cpos /\ k - 1 < cpos + (8 - ii) THEN 0
                         ELSE IF k - 1 >= 8 - (ii - cpos) THEN st.addr[k - (8 - ii)]
                         ELSE st.addr[k]]
                 ELSE st.addr
    IN  IF Ch(s, st.pos) # 0 /\ ~tr THEN [PtonFail(st.ub) EXCEPT !.addr = moved, !.bits = st.bits]
        ELSE [ret |-> st.pos, addr |-> moved, bits |-> st.bits, ub |-> st.ub]

RECURSIVE Pton6Loop(_, _, _, _)
Pton6Loop(s, hb, tr, st) ==
    IF st.ii >= 8
    THEN (* the loop ends with all eight groups in: only a netmask may follow.  D17: the original code *)
         (* went straight to finish (no netmask accepted here, *bits left untouched)                 *)
         IF ~hb \/ "D17" \in Bug THEN PtonFinish(s, tr, st)
         ELSE IF Ch(s, st.pos) = Slash /\ IsDigit(Ch(s, st.pos + 1))
         THEN LET e == SkipDigits(s, st.pos + 1)
                  v == DecNum(s, st.pos + 1, e)
              IN  IF e - st.pos - 1 > 9 THEN PtonFail(TRUE)
                  ELSE IF v > 128 THEN PtonFail(st.ub)
                  ELSE PtonFinish(s, tr, [st EXCEPT !.pos = e, !.bits = v])
         ELSE PtonFinish(s, tr, [st EXCEPT !.bits = 128])
    ELSE
    LET c    == Ch(s, st.pos)
        ii   == st.ii
        stor == [st EXCEPT !.addr[ii + 1] = st.part, !.ii = ii + 1]       \* addr->in6[ii++] = htons(part)
    IN  IF HexVal(c) >= 0
        THEN LET p == st.part * 16 + HexVal(c)
             IN  IF p > 65535 THEN PtonFail(st.ub) ELSE Pton6Loop(s, hb, tr, [st EXCEPT !.part = p, !.pos = @ + 1])
        ELSE IF c = Colon
        THEN LET p1  == st.pos + 1
                 st1 == [stor EXCEPT !.ps = p1, !.pos = p1, !.part = 0]
             IN  IF Ch(s, p1) = Dot THEN PtonFail(st.ub)
                 ELSE IF Ch(s, p1) = Colon
                 THEN IF st.cpos < 8 THEN PtonFail(st.ub) ELSE Pton6Loop(s, hb, tr, [st1 EXCEPT !.cpos = st1.ii])
                 ELSE Pton6Loop(s, hb, tr, st1)
        ELSE IF c = Dot
        THEN LET r4 == PtonIp4(SubSeq(s, st.ps + 1, Len(s)), hb, tr)
             IN  IF r4.len = 0 \/ ii > 6 THEN PtonFail(st.ub \/ r4.ub)
                 ELSE PtonFinish(s, tr, [st EXCEPT !.addr = [k \in 1..8 |-> IF k = ii + 1 THEN r4.hi ELSE IF k = ii + 2 THEN r4.lo ELSE st.addr[k]],
                                                   !.bits = IF hb THEN r4.bits + 96 ELSE Unset,
                                                   !.ii = ii + 2, !.pos = st.ps + r4.len, !.ub = st.ub \/ r4.ub])
        ELSE IF c = Slash
        THEN IF ~hb \/ ~IsDigit(Ch(s, st.pos + 1))
             THEN IF tr THEN PtonFinish(s, tr, stor) ELSE PtonFail(st.ub)
             ELSE LET e == SkipDigits(s, st.pos + 1)
                      v == DecNum(s, st.pos + 1, e)
                  IN  IF e - st.pos - 1 > 9 THEN PtonFail(TRUE)
                      ELSE IF v > 128 THEN PtonFail(st.ub)
                      ELSE PtonFinish(s, tr, [stor EXCEPT !.pos = e, !.bits = v])
        ELSE IF c = Star
        THEN LET e == SkipWhile(s, st.pos + 1, Star)
             IN  IF Ch(s, e) # 0 \/ st.cpos < 8 THEN PtonFail(st.ub)
                 ELSE [ret |-> e, addr |-> st.addr,
                       bits |-> IF hb THEN (IF "W16" \in Bug THEN ii * 8 ELSE ii * 16) ELSE Unset, ub |-> st.ub]
        ELSE IF st.cpos = 8 /\ stor.ii < 8 THEN PtonFail(st.ub)
        ELSE PtonFinish(s, tr, [stor EXCEPT !.bits = IF hb THEN 128 ELSE Unset])

PtonAlgo(s, hb, tr) ==
    LET pos0  == SkipSpace(s, 0)
        colon == FirstIndex(s, Colon)
        dot   == FirstIndex(s, Dot)
        st0   == [pos |-> pos0, part |-> 0, ii |-> 0, cpos |-> 8, ps |-> -1, addr |-> Zeros(8), bits |-> Unset, ub |-> FALSE]
        tailck(r) == IF Ch(s, r.ret) # 0 /\ ~tr THEN [r EXCEPT !.ret = 0] ELSE r
    IN  IF colon >= 0 /\ (dot < 0 \/ dot > colon)
        THEN IF Ch(s, pos0) = Colon
             THEN IF Ch(s, pos0 + 1) # Colon \/ Ch(s, pos0 + 2) = Colon THEN PtonFail(FALSE)
                  ELSE Pton6Loop(s, hb, tr, [st0 EXCEPT !.cpos = 0, !.pos = pos0 + 2, !.ps = pos0 + 2])
             ELSE Pton6Loop(s, hb, tr, st0)
        ELSE IF dot >= 0
        THEN LET r4  == PtonIp4(SubSeq(s, pos0 + 1, Len(s)), hb, tr)
                 pos == pos0 + r4.len
             IN  IF pos = 0 THEN tailck(PtonFail(r4.ub))
                 ELSE IF r4.len = 0 THEN tailck([ret |-> pos, addr |-> Zeros(8), bits |-> Unset, ub |-> TRUE])     \* ip4 uninitialised
                 ELSE tailck([ret |-> pos, addr |-> << 0, 0, 0, 0, 0, 65535, r4.hi, r4.lo >>,
                              bits |-> IF hb THEN (IF "NO96" \in Bug THEN r4.bits ELSE r4.bits + 96) ELSE Unset, ub |-> r4.ub])
        ELSE IF Ch(s, pos0) = Star
        THEN tailck([ret |-> SkipWhile(s, pos0 + 1, Star), addr |-> Zeros(8), bits |-> IF hb THEN 0 ELSE Unset, ub |-> FALSE])
        ELSE tailck([ret |-> pos0, addr |-> Zeros(8), bits |-> Unset, ub |-> FALSE])

-----------------------------------------------------------------------------
(* Domains shared with harness/h_addr.c (same formulas there; TLC re-computes *)
(* every case from its index when validating a trace).                        *)

Pow(b, e) == b ^ e

(* digit k (0 = most significant) of i written with `len` digits in base b *)
DigitOf(i, b, len, k) == (i \div (b ^ (len - 1 - k))) % b

(* -- group-class patterns: class = number of hex digits (0 = zero group) -- *)
ClassSeq(nc) == IF nc = 2 THEN << 0, 4 >>
                ELSE IF nc = 3 THEN << 0, 1, 4 >>
                ELSE IF nc = 4 THEN << 0, 1, 2, 4 >>
                ELSE << 0, 1, 2, 3, 4 >>

Rep1 == << 1, 2, 7, 8, 9, 10, 14, 15 >>
Rep2 == << 16, 31, 74, 255, 171, 18, 96, 207 >>
Rep3 == << 256, 4095, 2748, 291, 3840, 1929, 257, 2561 >>
Rep4 == << 4096, 65534, 43981, 4660, 61440, 65535, 32768, 51966 >>    \* ffff at group 6: IPv4-mapped shapes are patterns

Rep(c, i) == IF c = 0 THEN 0 ELSE IF c = 1 THEN Rep1[i] ELSE IF c = 2 THEN Rep2[i]
             ELSE IF c = 3 THEN Rep3[i] ELSE Rep4[i]

ClassOf(v) == IF v = 0 THEN 0 ELSE IF v < 16 THEN 1 ELSE IF v < 256 THEN 2 ELSE IF v < 4096 THEN 3 ELSE 4

PatCount(nc) == nc ^ 8
PatAddr(nc, pi) == [i \in 1..8 |-> Rep(ClassSeq(nc)[DigitOf(pi, nc, 8, i - 1) + 1], i)]

(* -- IPv4 and near-IPv4 shapes: 6 shapes x 4 octets from a pool -- *)
OctPool(nc) == IF nc <= 3 THEN << 0, 1, 10, 255 >> ELSE << 0, 1, 9, 10, 99, 100, 127, 200, 255 >>
V4Count(nc) == 6 * (Len(OctPool(nc)) ^ 4)
V4Addr(nc, vi) ==
    LET P  == OctPool(nc)
        b  == Len(P)
        sh == vi \div (b ^ 4)
        o  == [k \in 1..4 |-> P[DigitOf(vi % (b ^ 4), b, 4, k - 1) + 1]]
        g7 == 256 * o[1] + o[2]
        g8 == 256 * o[3] + o[4]
    IN  IF sh = 0 THEN << 0, 0, 0, 0, 0, 65535, g7, g8 >>          \* mapped
        ELSE IF sh = 1 THEN << 0, 0, 0, 0, 0, 0, g7, g8 >>         \* compatible
        ELSE IF sh = 2 THEN << 0, 0, 0, 0, 0, 65534, g7, g8 >>
        ELSE IF sh = 3 THEN << 0, 0, 0, 0, 0, 1, g7, g8 >>
        ELSE IF sh = 4 THEN << 0, 0, 0, 0, 1, 65535, g7, g8 >>
        ELSE << 1, 0, 0, 0, 0, 65535, g7, g8 >>

(* -- class boundary values, one group at a time, on two backgrounds -- *)
EdgeVals == << 1, 15, 16, 255, 256, 4095, 4096, 65535 >>
EdgeCount == 8 * 8 * 2
EdgeAddr(ei) ==
    LET pos == (ei \div 16) + 1
        v   == EdgeVals[((ei \div 2) % 8) + 1]
        bg  == IF ei % 2 = 0 THEN 0 ELSE 1
    IN  [i \in 1..8 |-> IF i = pos THEN v ELSE bg]

(* -- strings over an alphabet, all lengths 0..maxlen, one global index -- *)
(* lengths first: index 0 is the empty string, then the k strings of length 1 ... *)
StrCount(k, maxlen) == IF k = 1 THEN maxlen + 1 ELSE ((k ^ (maxlen + 1)) - 1) \div (k - 1)
RECURSIVE StrLenOf(_, _, _)
StrLenOf(k, g, len) == IF g < k ^ len THEN << len, g >> ELSE StrLenOf(k, g - k ^ len, len + 1)
StrAt(alpha, g) ==
    LET k  == Len(alpha)
        lj == StrLenOf(k, g, 0)
    IN  [p \in 1..lj[1] |-> alpha[DigitOf(lj[2], k, lj[1], p - 1) + 1]]

(* -- mask cases: group g (0..7), 16-bit difference d in that group -- *)
(* exhaustive domain: i in 0..8*65535-1 -> (g, d) = (i \div 65535, i % 65535 + 1)    *)
(* quick domain (48 differences per group): single bits, low masks, high masks       *)
MaskDiffQ(j) == IF j < 16 THEN 2 ^ j
                ELSE IF j < 32 THEN (2 ^ (j - 15)) - 1
                ELSE 65536 - (2 ^ (j - 32))
MaskCaseCount(full) == IF full THEN 8 * 65535 ELSE 8 * 48
MaskCaseGroup(full, i) == IF full THEN i \div 65535 ELSE i \div 48
MaskCaseDiff(full, i)  == IF full THEN (i % 65535) + 1 ELSE MaskDiffQ(i % 48)

-----------------------------------------------------------------------------
(* A.4  MaskForm: structured mask / address texts with their documented       *)
(* results (comment of irc_pton in modules/iauth.h, tests/test_iauth.c).      *)
(*                                                                         *)
(* A form is a record                                                       *)
(*   k     kind (below)                                                     *)
(*   L, R  group values written left / right of the "::" (R only with gap)  *)
(*   gap   TRUE iff "::" is written                                         *)
(*   q     octets written in dotted decimal (the whole text for the IPv4    *)
(*         kinds, the tail after the groups for IPv6 kinds; << >> = none)   *)
(*   n     prefix length written after "/" (-1 = none)                      *)
(*   st    number of "*" written (0 = none)                                 *)
(*   sty   0 lower-case minimal hex, 1 upper case, 2 zero-padded to 4       *)
(*   x     extra text for the reject kinds (character codes)                *)
(* kinds: p6 plain IPv6, c6 IPv6 "/n", s6 short IPv6 "x:y/n", w6 "x:y:*",   *)
(*        p4 dotted quad, c4 "a.b.c.d/n", s4 "a.b/n", w4 "a.b.*", w0 "*",    *)
(*        xo octet > 255, xg group > ffff, x2 two "::", xl prefix length    *)
(*        too large, xw wildcard not last / after "::", xc leading single   *)
(*        ":", xd leading or doubled ".", xs fewer than four octets,        *)
(*        xm too many groups.                                               *)

GroupText(v, sty) ==
    IF sty = 2 THEN << HexDigit(v \div 4096), HexDigit((v \div 256) % 16), HexDigit((v \div 16) % 16), HexDigit(v % 16) >>
    ELSE IF sty = 1
    THEN   (IF v >= 4096 THEN << HexDigitU(v \div 4096) >> ELSE << >>)
        \o (IF v >= 256 THEN << HexDigitU((v \div 256) % 16) >> ELSE << >>)
        \o (IF v >= 16 THEN << HexDigitU((v \div 16) % 16) >> ELSE << >>)
        \o << HexDigitU(v % 16) >>
    ELSE HexText(v)

RECURSIVE NatText(_)
NatText(v) == IF v < 10 THEN << 48 + v >> ELSE NatText(v \div 10) \o << 48 + (v % 10) >>

RECURSIVE Join(_, _)
Join(items, sep) == IF items = << >> THEN << >>
                    ELSE IF Len(items) = 1 THEN items[1]
                    ELSE items[1] \o << sep >> \o Join(Tail(items), sep)

QuadText(q) == Join([i \in 1..Len(q) |-> NatText(q[i])], Dot)

V6Text(f) ==
    LET lt == [i \in 1..Len(f.L) |-> GroupText(f.L[i], f.sty)]
        rt == [i \in 1..Len(f.R) |-> GroupText(f.R[i], f.sty)]
              \o (IF f.q # << >> THEN << QuadText(f.q) >> ELSE << >>)
    IN  Join(lt, Colon)
        \o (IF f.gap THEN << Colon, Colon >> ELSE IF lt # << >> /\ rt # << >> THEN << Colon >> ELSE << >>)
        \o Join(rt, Colon)

Stars(n) == [i \in 1..n |-> Star]

IsV4Kind(k) == k \in {"p4", "c4", "s4", "w4", "xl4", "xs"}

Render(f) ==
    IF f.k = "w0" THEN Stars(f.st)
    ELSE IF f.k = "raw" THEN f.x
    ELSE (IF IsV4Kind(f.k) THEN QuadText(f.q) ELSE V6Text(f))
         \o (IF f.st > 0 THEN (IF IsV4Kind(f.k) THEN << Dot >> ELSE << Colon >>) \o Stars(f.st) ELSE << >>)
         \o (IF f.n >= 0 THEN << Slash >> \o NatText(f.n) ELSE << >>)
         \o f.x

(* the address written by a form (missing groups / octets are zero) *)
QuadGroups(q) == LET o == q \o Zeros(4 - Len(q)) IN << 256 * o[1] + o[2], 256 * o[3] + o[4] >>

FormNet(f) ==
    IF f.k = "w0" THEN Zeros(8)
    ELSE IF IsV4Kind(f.k) THEN << 0, 0, 0, 0, 0, 65535 >> \o QuadGroups(f.q)
    ELSE LET r == f.R \o (IF f.q # << >> THEN QuadGroups(f.q) ELSE << >>)
         IN  f.L \o Zeros(8 - Len(f.L) - Len(r)) \o r

OkKinds == {"p6", "c6", "s6", "w6", "p4", "c4", "s4", "w4", "w0"}

(* documented result of irc_pton(addr, &bits, text, 0): accepted entirely or rejected; bits; network *)
Doc(f) ==
    [ ok   |-> f.k \in OkKinds,
      bits |-> IF f.k \in {"p6", "p4"} THEN 128
               ELSE IF f.k \in {"c6", "s6"} THEN f.n
               ELSE IF f.k = "w6" THEN 16 * Len(f.L)
               ELSE IF f.k \in {"c4", "s4"} THEN 96 + f.n
               ELSE IF f.k = "w4" THEN 96 + 8 * Len(f.q)
               ELSE 0,
      net  |-> FormNet(f) ]

(* value pools; written group k of a form takes GPool[(k + shift) mod 5] *)
GPool  == << 0, 1, 171, 4660, 65535 >>
OPool  == << 0, 1, 10, 127, 255 >>
NPool6 == << 0, 1, 8, 15, 16, 17, 31, 32, 33, 48, 63, 64, 65, 96, 112, 127, 128 >>
GVal(k, shift) == GPool[((k + shift) % 5) + 1]

Form0 == [k |-> "", L |-> << >>, R |-> << >>, gap |-> FALSE, q |-> << >>, n |-> -1, st |-> 0, sty |-> 0, x |-> << >>]

(* the 37 (left, right, gap) layouts of an IPv6 text: index 0..35 gap layouts with i + j <= 7, 36 = eight groups *)
RECURSIVE LayoutOf(_, _)
LayoutOf(idx, i) == IF idx < 8 - i THEN << i, idx >> ELSE LayoutOf(idx - (8 - i), i + 1)
Layout(idx) == IF idx = 36 THEN [i |-> 8, j |-> 0, gap |-> FALSE]
               ELSE LET p == LayoutOf(idx, 0) IN [i |-> p[1], j |-> p[2], gap |-> TRUE]

V6Form(kind, lay, shift, quad, sty) ==
    (* quad: the last two groups are written as a dotted quad when the layout has them *)
    LET i    == lay.i
        j    == lay.j
        tail == IF lay.gap THEN j ELSE i          \* groups in the part that may end with the quad
        useq == quad = 1 /\ tail >= 2
        ln   == IF lay.gap THEN i ELSE (IF useq THEN 6 ELSE 8)
        rn   == IF lay.gap THEN (IF useq THEN j - 2 ELSE j) ELSE 0
        v(k) == GVal(k, shift)
        qv   == IF useq THEN << v(i + j - 1) \div 256, v(i + j - 1) % 256, v(i + j) \div 256, v(i + j) % 256 >> ELSE << >>
    IN  [Form0 EXCEPT !.k = kind,
                      !.L = [k \in 1..ln |-> v(k)],
                      !.R = [k \in 1..rn |-> v(i + k)],
                      !.gap = lay.gap, !.q = qv, !.sty = sty]

Families == << "p6", "p4", "c6", "s6", "w6", "c4", "s4", "w4", "w0",
               "xo", "xg", "x2", "xl", "xw", "xc", "xd", "xs", "xm" >>

OctTuple(i, len) == [k \in 1..len |-> OPool[DigitOf(i, 5, len, k - 1) + 1]]

BadOctets == << 256, 260, 300, 999, 1000 >>
BadGroupsTxt == << << 49, 48, 48, 48, 48 >>, << 49, 50, 51, 52, 53 >>, << 102, 102, 102, 102, 102 >>, << 49, 48, 48, 48, 48, 48 >> >>
                   \* "10000" "12345" "fffff" "100000"
BadLen4 == << 33, 40, 99, 128, 129 >>
BadLen6 == << 129, 130, 200, 999, 1000 >>

FamSize(fam) ==
    CASE fam = "p6" -> 37 * 5 * 2 * 3
      [] fam = "c6" -> 37 * 5 * 3 * Len(NPool6)
      [] fam = "s6" -> 6 * 5 * 4
      [] fam = "w6" -> 7 * 5 * 3
      [] fam = "p4" -> 625
      [] fam = "c4" -> 81 * 33
      [] fam = "s4" -> (25 + 125) * 3
      [] fam = "w4" -> 5 + 25 + 125
      [] fam = "w0" -> 3
      [] fam = "xo" -> 4 * 5 * 3
      [] fam = "xg" -> 8 * 4 * 2
      [] fam = "x2" -> 15
      [] fam = "xl" -> 5 * 2 * 2
      [] fam = "xw" -> 10
      [] fam = "xc" -> 37 * 2
      [] fam = "xd" -> 8
      [] fam = "xs" -> 2 * 2
      [] fam = "xm" -> 10

Txt4(a, b, c, d) == NatText(a) \o << Dot >> \o NatText(b) \o << Dot >> \o NatText(c) \o << Dot >> \o NatText(d)

FormAt(fam, i) ==
    CASE fam = "p6" ->       \* (layout, shift, quad, style)
           V6Form("p6", Layout(i \div 30), (i \div 6) % 5, (i \div 3) % 2, i % 3)
      [] fam = "c6" ->       \* (layout, shift, style, n)
           LET nn == Len(NPool6)
           IN  [V6Form("c6", Layout(i \div (15 * nn)), (i \div (3 * nn)) % 5, 0, (i \div nn) % 3)
                  EXCEPT !.n = NPool6[(i % nn) + 1]]
      [] fam = "s6" ->       \* (groups 2..7, shift, which n)
           LET len == (i \div 20) + 2
               sh  == (i \div 4) % 5
               nn  == << 16 * len, 16 * len - 1, 16 * len - 15, 1 >>[(i % 4) + 1]
           IN  [Form0 EXCEPT !.k = "s6", !.L = [k \in 1..len |-> GVal(k, sh)], !.n = nn]
      [] fam = "w6" ->       \* (groups 1..7, shift, style)
           LET len == (i \div 15) + 1
           IN  [Form0 EXCEPT !.k = "w6", !.L = [k \in 1..len |-> GVal(k, (i \div 3) % 5)], !.st = 1, !.sty = i % 3]
      [] fam = "p4" -> [Form0 EXCEPT !.k = "p4", !.q = OctTuple(i, 4)]
      [] fam = "c4" -> [Form0 EXCEPT !.k = "c4", !.q = [k \in 1..4 |-> << 0, 127, 255 >>[DigitOf(i \div 33, 3, 4, k - 1) + 1]], !.n = i % 33]
      [] fam = "s4" ->       \* 2 or 3 octets, n in {8 len, 8 len - 1, 1}
           LET j   == i \div 3
               len == IF j < 25 THEN 2 ELSE 3
               oi  == IF j < 25 THEN j ELSE j - 25
           IN  [Form0 EXCEPT !.k = "s4", !.q = OctTuple(oi, len), !.n = << 8 * len, 8 * len - 1, 1 >>[(i % 3) + 1]]
      [] fam = "w4" ->
           LET len == IF i < 5 THEN 1 ELSE IF i < 30 THEN 2 ELSE 3
               oi  == IF i < 5 THEN i ELSE IF i < 30 THEN i - 5 ELSE i - 30
           IN  [Form0 EXCEPT !.k = "w4", !.q = OctTuple(oi, len), !.st = 1]
      [] fam = "w0" -> [Form0 EXCEPT !.k = "w0", !.st = i + 1]
      (* ---- documented rejections (tests/test_iauth.c), generalised ---- *)
      [] fam = "xo" ->       \* an octet > 255: position x value x context (plain, "/24", after "::ffff:")
           LET pos == i \div 15
               bv  == BadOctets[((i \div 3) % 5) + 1]
               ctx == i % 3
               o   == [k \in 1..4 |-> IF k = pos + 1 THEN bv ELSE << 1, 2, 3, 4 >>[k]]
               t   == Txt4(o[1], o[2], o[3], o[4])
           IN  [Form0 EXCEPT !.k = "raw",
                  !.x = IF ctx = 0 THEN t ELSE IF ctx = 1 THEN t \o << Slash, 50, 52 >>
                        ELSE << Colon, Colon, 102, 102, 102, 102, Colon >> \o t]
      [] fam = "xg" ->       \* a group > ffff: position x text x (eight groups | "::" after it or before it)
           LET pos == i \div 8
               bt  == BadGroupsTxt[((i \div 2) % 4) + 1]
               gp  == i % 2
               grp(k) == IF k = pos + 1 THEN bt ELSE << 49 + k >>
           IN  [Form0 EXCEPT !.k = "raw",
                  !.x = IF gp = 0 THEN Join([k \in 1..8 |-> grp(k)], Colon)
                        ELSE IF pos < 7 THEN Join([k \in 1..(pos + 1) |-> grp(k)], Colon) \o << Colon, Colon >>
                        ELSE << Colon, Colon >> \o bt]
      [] fam = "x2" ->       \* two "::": a::b::c shapes
           LET a == i \div 5
               b == i % 5
               one == << 97 >>
               left == Join([k \in 1..a |-> one], Colon)
               mid  == Join([k \in 1..((b % 3) + 1) |-> one], Colon)
               tail == IF b < 3 THEN one ELSE << >>
           IN  [Form0 EXCEPT !.k = "raw", !.x = left \o << Colon, Colon >> \o mid \o << Colon, Colon >> \o tail]
      [] fam = "xl" ->       \* prefix length too large
           LET v4  == i \div 10 = 0
               li  == (i \div 2) % 5
               alt == i % 2
           IN  IF v4 THEN [Form0 EXCEPT !.k = "xl4", !.q = IF alt = 0 THEN << 127, 0, 0, 0 >> ELSE << 10, 1 >>, !.n = BadLen4[li + 1]]
               ELSE [V6Form("xl", Layout(IF alt = 0 THEN 9 ELSE 36), 1, 0, 0) EXCEPT !.n = BadLen6[li + 1]]
      [] fam = "xw" ->       \* wildcard not last, or together with "::"
           [Form0 EXCEPT !.k = "raw", !.x =
              << << 49, 50, 55, Dot, Star, Dot, 49 >>,                                  \* 127.*.1
                 << 97, Colon, Colon, 98, Colon, Star >>,                               \* a::b:*
                 << 97, Colon, Colon, 98, Colon, Colon, Star >>,                        \* a::b::*
                 << 97, Colon, Colon, Star >>,                                          \* a::*
                 << Colon, Colon, Star >>,                                              \* ::*
                 << Colon, Colon, 97, Colon, Star >>,                                   \* ::a:*
                 << 97, Colon, Star, Colon, 98 >>,                                      \* a:*:b
                 << 49, Dot, Star, Dot, Star >>,                                        \* 1.*.*
                 << 49, Dot, 50, Dot, Star, Dot, 52 >>,                                 \* 1.2.*.4
                 << 97, Colon, 98, Colon, Star, Colon >> >>[i + 1]]                     \* a:b:*:
      [] fam = "xc" ->       \* a single leading ":" before an otherwise valid text
           LET f == V6Form("raw", Layout(i \div 2), 1, 0, 0)
           IN  IF Len(f.L) = 0 THEN [Form0 EXCEPT !.k = "raw", !.x = << Colon, 97 >> \o V6Text(f) \o (IF i % 2 = 1 THEN << Slash, 49, 50, 56 >> ELSE << >>)]
               ELSE [Form0 EXCEPT !.k = "raw", !.x = << Colon >> \o V6Text(f) \o (IF i % 2 = 1 THEN << Slash, 49, 50, 56 >> ELSE << >>)]
      [] fam = "xd" ->       \* leading or doubled "."
           [Form0 EXCEPT !.k = "raw", !.x =
              << << Dot, 49, Dot, 50, Dot, 51 >>,                                       \* .1.2.3
                 << Dot, 49, Dot, 50, Dot, 51, Dot, 52 >>,                              \* .1.2.3.4
                 << 49, Dot, 50, Dot, 51, Dot, Dot, 52 >>,                              \* 1.2.3..4
                 << 49, Dot, Dot, 50, Dot, 51, Dot, 52 >>,                              \* 1..2.3.4
                 << 49, Dot, 50, Dot, Dot, 51, Dot, 52 >>,                              \* 1.2..3.4
                 << Colon, Colon, 102, 102, 102, 102, Colon, Dot, 49, Dot, 50, Dot, 51 >>,        \* ::ffff:.1.2.3
                 << Colon, Colon, Dot, 49, Dot, 50, Dot, 51, Dot, 52 >>,                          \* ::.1.2.3.4
                 << Colon, Colon, 49, Dot, 50, Dot, Dot, 51, Dot, 52 >> >>[i + 1]]                \* ::1.2..3.4
      [] fam = "xs" ->       \* fewer than four octets and no mask
           LET len == (i \div 2) + 2
           IN  [Form0 EXCEPT !.k = "xs", !.q = IF i % 2 = 0 THEN [k \in 1..len |-> k] ELSE [k \in 1..len |-> 255]]
      [] fam = "xm" ->       \* too many groups
           [Form0 EXCEPT !.k = "raw", !.x =
              LET g(n) == Join([k \in 1..n |-> << 48 + k >>], Colon)
                  q    == << 49, 50, 55, Dot, 48, Dot, 48, Dot, 49 >>
              IN << g(9),                                                               \* 1:2:...:9
                    g(7) \o << Colon >> \o q,                                           \* 1:..:7:127.0.0.1
                    g(8) \o << Colon >> \o q,
                    g(1) \o << Colon, Colon >> \o Join([k \in 1..7 |-> << 49 + k >>], Colon),      \* 1::2:..:8
                    g(7) \o << Colon, Colon >> \o << 56 >>,                             \* 1:..:7::8
                    g(8) \o << Colon, Colon >>,                                         \* 1:..:8::
                    g(6) \o << Colon, Colon >> \o q,                                    \* 1:..:6::127.0.0.1
                    g(9) \o << Slash, 54, 52 >>,
                    g(9) \o << Colon, Star >>,
                    g(8) \o << Colon, 57, Colon, 97 >> >>[i + 1]]

=============================================================================
