CONSTANTS
  FULL = FALSE
  Bug = {"M1"}
INIT Init
NEXT Next
INVARIANTS AlgoExact AlgoRange DefsAgree FirstDiffOK
