"""Glue shared by checks/c14.py and checks/c16.py (configuration file reader).

Nothing here judges the property: it runs TLC to generate renderings (spec/MCConfSyntax),
feeds bytes to harness/h_confparse (the real conf_read()), splices the generator's record
("gen" line) in front of the harness's own begin/end lines, cuts the trace into chunks and
hands them to TLC (spec/ConfParseTrace), and maps TLC's rejections back to cases.
"""
import concurrent.futures as cf
import json
import os
import re
import subprocess
import time

from . import core
from . import tlc as _tlc

JAVA_OPTS = ["-Xss256m"]

# the typed settings registered under the object "typed" (same names as MCConfSyntax!TypedName)
TYPED_REG = [(1, "b", "no"), (2, "i", "7"), (3, "f", "1.5"), (4, "iv", "90"), (5, "vol", "512")]

CONTRACT_PREFIXES = ("C14_", "C16_")


def hx(s):
    if s is None:
        return "-"
    if isinstance(s, str):
        s = s.encode("latin1")
    s = bytes(s)
    return s.hex() if s else "="


def typed_setup():
    return ["regs %s %d %s %s" % (hx("typed"), st, hx(nm), hx(d)) for st, nm, d in TYPED_REG]


def show(b, limit=160):
    """printable form of file bytes for signatures / samples"""
    r = repr(bytes(b))[2:-1]
    return r if len(r) <= limit else r[:limit] + "...(%d bytes)" % len(b)


# ---- generation (TLC renders) ---------------------------------------------------------------

def generate(ctx, mode, tag, workers=8, timeout=800, **params):
    """Run MCConfSyntax with EMIT=1; returns (list of emitted cases, TLC result).
    Every emitted case has been checked by TLC: Meaning(Parse(Render(t, l))) = Meaning(t)."""
    env = {"MODE": mode, "EMIT": "1", "SEED": str(ctx.seed)}
    env.update({k.upper(): str(v) for k, v in params.items()})
    outp = os.path.join(ctx.scratch, "gen-%s.out" % tag)
    r = ctx.tlc("MCConfSyntax", "MCConfSyntax.cfg", workers=workers, timeout=timeout, env=env,
                java_opts=JAVA_OPTS, stdout_path=outp)
    if not r.ok:
        raise core.MachineryError("MCConfSyntax (%s) reports %s on the unchanged specification:\n%s"
                                  % (mode, r.violated, r.violation_text[:3000]))
    cases = []
    with open(outp, errors="replace") as f:
        for line in f:
            if line.startswith('"@@E'):
                cases.append(json.loads(json.loads(line)[3:]))
    os.unlink(outp)
    if not cases:
        raise core.MachineryError("MCConfSyntax (%s) emitted no cases" % mode)
    return cases, r


def model_check(ctx, mode, workers=16, timeout=800, **params):
    env = {"MODE": mode, "EMIT": "0", "SEED": str(ctx.seed)}
    env.update({k.upper(): str(v) for k, v in params.items()})
    r = ctx.tlc("MCConfSyntax", "MCConfSyntax.cfg", workers=workers, timeout=timeout, env=env, java_opts=JAVA_OPTS)
    if not r.ok:
        raise core.MachineryError("MCConfSyntax (%s) reports %s on the unchanged specification:\n%s"
                                  % (mode, r.violated, r.violation_text[:3000]))
    return r


# ---- running the real parser -----------------------------------------------------------------

class Case:
    """One forked case: files = list of byte strings loaded one after the other;
    gens = per file None or the generator's record {"t","l","typed"}."""
    __slots__ = ("id", "files", "gens", "group")

    def __init__(self, cid, files, gens=None, group=""):
        self.id = str(cid)
        self.files = [bytes(f) for f in files]
        self.gens = gens or [None] * len(files)
        self.group = group

    def cmd(self):
        return "case %s %s" % (self.id, " ".join(hx(f) for f in self.files))


def _run_one(harness, setup, cases, workdir, idx, timeout):
    tmpf = os.path.join(workdir, "h%d.conf" % idx)
    outp = os.path.join(workdir, "h%d.out" % idx)
    errp = os.path.join(workdir, "h%d.err" % idx)
    inp = "\n".join(list(setup) + [c.cmd() for c in cases]) + "\n"
    env = dict(os.environ, ASAN_OPTIONS="detect_leaks=0:abort_on_error=0", UBSAN_OPTIONS="print_stacktrace=0")
    t0 = time.time()
    with open(outp, "w") as fo, open(errp, "w") as fe:
        try:
            p = subprocess.run([harness, tmpf, "20"], input=inp, stdout=fo, stderr=fe, text=True, env=env, timeout=timeout)
            rc = p.returncode
        except subprocess.TimeoutExpired:
            rc = -999
    try:
        os.unlink(tmpf)
    except OSError:
        pass
    return outp, errp, rc, time.time() - t0


def run_cases(ctx, setup, cases, tag, nproc=16, timeout=600):
    """Run the cases on `nproc` harness processes (same setup each).  Returns a list of
    (stdout path, stderr path, exit status, cases of that process)."""
    harness = ctx.build.harness("h_confparse")
    workdir = os.path.join(ctx.scratch, "run-" + tag)
    os.makedirs(workdir, exist_ok=True)
    nproc = max(1, min(nproc, (len(cases) + 49) // 50))
    parts = [cases[i::nproc] for i in range(nproc)]
    res = []
    with cf.ThreadPoolExecutor(max_workers=nproc) as ex:
        futs = [ex.submit(_run_one, harness, setup, part, workdir, i, timeout) for i, part in enumerate(parts)]
        for part, f in zip(parts, futs):
            outp, errp, rc, _ = f.result()
            res.append((outp, errp, rc, part))
    return res


class TraceSet:
    """Chunked trace files plus the bookkeeping needed to map a TLC rejection to its case."""

    def __init__(self, ctx, tag, chunk_lines=6000):
        self.ctx = ctx
        self.dir = os.path.join(ctx.scratch, "trace-" + tag)
        os.makedirs(self.dir, exist_ok=True)
        self.chunk_lines = chunk_lines
        self.chunks = []          # (path, nlines, [(first line no, context, case or None)])
        self._cur = None
        self._n = 0
        self._index = []
        self.loads = 0            # conf_read() calls seen ("end" lines)
        self.begins = 0
        self.rcs = {}
        self.inputs_failed = set()
        self.inputs_ok = set()
        self.stderr_of = {}       # context -> stderr path

    def _open(self):
        path = os.path.join(self.dir, "chunk%d.ndjson" % len(self.chunks))
        self._cur = open(path, "w")
        self._n = 0
        self._index = []
        self._path = path

    def _close(self):
        if self._cur:
            self._cur.close()
            if self._n:
                self.chunks.append((self._path, self._n, self._index))
            self._cur = None

    def add_process_output(self, outp, errp, part, context):
        """Splice gen lines into one harness process's output and append it to the chunks.
        Returns the ids of cases whose output is missing entirely."""
        by_id = {c.id: c for c in part}
        seen = set()
        self.stderr_of[context] = errp
        group = []               # lines of the current case
        gid = None

        def flush():
            nonlocal group, gid
            if not group:
                return
            if self._cur is None or self._n + len(group) > self.chunk_lines:
                self._close()
                self._open()
            self._index.append((self._n + 1, context, by_id.get(gid), gid))
            for g in group:
                self._cur.write(g)
                self._cur.write("\n")
            self._n += len(group)
            group = []

        with open(outp, errors="replace") as f:
            for line in f:
                line = line.rstrip("\n")
                if not line:
                    continue
                m = re.match(r'\{"e":"(\w+)","id":"([^"]*)"(?:,"k":(\d+))?', line)
                ev = m.group(1) if m else None
                cid = m.group(2) if m else None
                if cid != gid:
                    flush()
                    gid = cid
                if ev == "begin":
                    self.begins += 1
                    seen.add(cid)
                    c = by_id.get(cid)
                    k = int(m.group(3))
                    if c is not None and k < len(c.gens) and c.gens[k] is not None:
                        g = c.gens[k]
                        group.append(json.dumps({"e": "gen", "id": cid, "k": k, "t": g["t"], "l": g["l"],
                                                 "typed": g.get("typed", [])}, separators=(",", ":")))
                elif ev == "end":
                    self.loads += 1
                    mr = re.search(r'"rc":(-?\d+)', line)
                    rc = int(mr.group(1)) if mr else None
                    self.rcs[rc] = self.rcs.get(rc, 0) + 1
                elif ev == "died":
                    seen.add(cid)
                group.append(line)
        flush()
        return [c.id for c in part if c.id not in seen]

    def finish(self):
        self._close()

    def locate(self, chunk_idx, lineno):
        """(context, case or None, case id) of the case containing line `lineno` of the chunk"""
        idx = self.chunks[chunk_idx][2]
        best = idx[0]
        for ent in idx:
            if ent[0] <= lineno:
                best = ent
            else:
                break
        return best[1], best[2], best[3]

    def case_lines(self, chunk_idx, lineno):
        idx = self.chunks[chunk_idx][2]
        start, end = 1, self.chunks[chunk_idx][1]
        for i, ent in enumerate(idx):
            if ent[0] <= lineno:
                start = ent[0]
                end = idx[i + 1][0] - 1 if i + 1 < len(idx) else self.chunks[chunk_idx][1]
        out = []
        with open(self.chunks[chunk_idx][0]) as f:
            for n, line in enumerate(f, 1):
                if start <= n <= end:
                    out.append(line.rstrip("\n"))
                elif n > end:
                    break
        return out


_RE_VIOL = re.compile(r"Error: Invariant (\S+) is violated by the initial state:\s*\n\s*l = (\d+)")
_RE_EVAL = re.compile(r"Error: Evaluating invariant (\S+) failed")


def _validate_chunk(path, nlines, cfg, heap):
    r = _tlc.run("ConfParseTrace", cfg, workers=1, timeout=1500, env={"TRACE": path}, java_opts=JAVA_OPTS,
                 heap=heap, extra=["-continue"], capture_printed=False)
    viol = [(m.group(1), int(m.group(2))) for m in _RE_VIOL.finditer(r.output)]
    return r, viol


def validate(ctx, ts, cfg="ConfParseTrace.cfg", parallel=6, heap="3g"):
    """TLC judges every line of every chunk.  Returns list of (chunk index, invariant, line number)."""
    out = []
    t0 = time.time()
    with cf.ThreadPoolExecutor(max_workers=parallel) as ex:
        futs = [ex.submit(_validate_chunk, path, n, cfg, heap) for path, n, _ in ts.chunks]
        for ci, (f, (path, n, _)) in enumerate(zip(futs, ts.chunks)):
            r, viol = f.result()
            ctx.tlc_runs.append({"module": "ConfParseTrace", "cfg": cfg, "generated": r.generated, "distinct": r.distinct,
                                 "depth": r.depth, "wall_s": round(r.wall_s, 1), "violated": r.violated, "trace_lines": n})
            if r.violated and not viol:
                raise core.MachineryError("ConfParseTrace failed without naming a line (%s):\n%s"
                                          % (r.violated, r.violation_text[:3000]))
            if r.distinct != n:
                raise core.MachineryError("ConfParseTrace judged %d lines of %s, the chunk has %d" % (r.distinct, path, n))
            out += [(ci, inv, ln) for inv, ln in viol]
    ctx.cov["validate_s"] = round(ctx.cov.get("validate_s", 0) + time.time() - t0, 1)
    return out


def validate_lines(ctx, lines, tag, cfg="ConfParseTrace.cfg"):
    """Validate a small trace given as a list of lines; returns the set of violated conjuncts."""
    path = os.path.join(ctx.scratch, "re-%s.ndjson" % tag)
    with open(path, "w") as f:
        f.write("\n".join(lines) + "\n")
    r, viol = _validate_chunk(path, len(lines), cfg, "2g")
    if r.violated and not viol:
        raise core.MachineryError("ConfParseTrace failed on a re-run trace (%s):\n%s" % (r.violated, r.violation_text[:3000]))
    return sorted(set(inv for inv, _ in viol))


def rerun(ctx, setup, case, tag):
    """Run one case again on a fresh process; returns (violated conjuncts, trace lines, stderr text)."""
    res = run_cases(ctx, setup, [case], "re-" + tag, nproc=1, timeout=120)
    outp, errp, rc, part = res[0]
    ts = TraceSet(ctx, "re-" + tag, chunk_lines=10 ** 9)
    ts.add_process_output(outp, errp, part, "rerun")
    ts.finish()
    lines = []
    for path, n, _ in ts.chunks:
        with open(path) as f:
            lines += [x.rstrip("\n") for x in f]
    # judge only the case itself: drop the setup's own loads (they have ids of their own)
    keep = []
    for ln in lines:
        m = re.match(r'\{"e":"\w+","id":"([^"]*)"', ln)
        if m and m.group(1) == case.id:
            keep.append(ln)
    with open(errp, errors="replace") as f:
        err = f.read()
    if not keep:
        return ["C14_Total"], lines, err
    return validate_lines(ctx, keep, tag), keep, err


def sanitizer_summary(err):
    m = re.search(r"ERROR: AddressSanitizer: ([^\n]*)", err)
    if m:
        where = re.search(r"#\d+ 0x[0-9a-f]+ in (\w+) [^\n]*config\.c:(\d+)", err)
        return "AddressSanitizer: %s%s" % (m.group(1)[:100], (" in %s (config.c:%s)" % where.groups()) if where else "")
    return ""


# ---- anti-vacuity: the oracle must reject corrupted copies of real trace lines ---------------

_BOGUS = {"n": [122, 122, 122], "k": "s", "P": 1, "S": 0, "v": [[1]], "d": [], "st": 0, "pv": 0, "pvd": [48]}


def oracle_selftest(ctx, ts, cfg, want_gen):
    """Corrupt one field / delete one line of recorded cases; TLC must name the expected conjunct.
    A corruption that is accepted means the oracle is vacuous: machinery error."""
    ok_case = fail_case = None
    for ci, (path, n, index) in enumerate(ts.chunks):
        for ent in index:
            if ent[2] is None:
                continue
            lines = ts.case_lines(ci, ent[0])
            recs = [json.loads(x) for x in lines]
            ends = [r for r in recs if r["e"] == "end"]
            if len(ends) != 1 or (want_gen and recs[0]["e"] != "gen") or len(lines[-1]) > 20000:
                continue
            if ends[0]["rc"] == 0 and ok_case is None:
                ok_case = recs
            if ends[0]["rc"] != 0 and fail_case is None:
                fail_case = recs
            if ok_case and (fail_case or want_gen):
                break
        if ok_case and (fail_case or want_gen):
            break
    tests = []

    def mut(recs, fn, expect, name):
        cp_ = json.loads(json.dumps(recs))
        out = fn(cp_)
        tests.append((name, [json.dumps(r, separators=(",", ":")) for r in out], expect))

    def add_node(present, specified):
        def f(recs):
            nd = dict(_BOGUS, P=present, S=specified)
            recs[-1]["after"]["c"].append(nd)
            return recs
        return f

    def set_end(**kw):
        def f(recs):
            recs[-1].update(kw)
            return recs
        return f

    if ok_case:
        mut(ok_case, lambda r: r[:-1], "C14_Total", "end line deleted")
        mut(ok_case, add_node(0, 0), "C14_PostState", "unregistered absent node left in the tree")
        if want_gen:
            mut(ok_case, add_node(1, 0), "C16_ReadBack", "extra present node")
            mut(ok_case, set_end(rc=-4), "C16_Accepted", "rc changed to an error")
    if fail_case:
        mut(fail_case, add_node(1, 0), "C14_Atomic", "tree changed by a failed load")
        mut(fail_case, set_end(nhooks=1, hooks=[{"n": [97], "k": "s"}]), "C14_NoNotify", "hook logged by a failed load")
    if not tests or (not want_gen and not fail_case):
        raise core.MachineryError("oracle self-test: no suitable recorded case found")
    with cf.ThreadPoolExecutor(max_workers=6) as ex:
        futs = [(name, expect, ex.submit(validate_lines, ctx, lines, "st%d" % i, cfg)) for i, (name, lines, expect) in enumerate(tests)]
        for name, expect, f in futs:
            got = f.result()
            if expect not in got:
                raise core.MachineryError("oracle self-test: corrupted trace (%s) was not rejected with %s (got %s)" % (name, expect, got))
    ctx.cov["oracle_selftest"] = [name for name, _, _ in tests]
