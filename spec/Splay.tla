------------------------------- MODULE Splay --------------------------------
(***************************************************************************)
(* Implementation-shaped specification (B) of src/set.c, property C19.     *)
(*                                                                         *)
(* Same variables as the code: struct set {root, count}; per node the      *)
(* tree links l, r and the threaded list links prev, next.  A node is      *)
(* named by the element id it carries (fresh per set_insert, like a fresh  *)
(* allocation).  One action per API call; sub-operators are named after    *)
(* the C functions they transcribe.  Deterministic.                        *)
(*                                                                         *)
(* The node OBJECT handed to set_insert need not be zeroed: the caller may *)
(* pass a node that was taken out of a set with no_dispose (src/config.c   *)
(* moves nodes between sets that way), whose l/r/prev/next still hold what *)
(* they held then.  Insert therefore takes the four values found in the    *)
(* object (st, drawn from StaleLinks) and states every assignment the code *)
(* makes to them; InsertIgnoresStale says that the outcome is the one for  *)
(* a zeroed node, i.e. all four links of the inserted node are (re)written *)
(* on every path.  BugStaleLinks re-introduces "replacement implemented as *)
(* set_remove + ordinary insertion, which writes no link when the replaced *)
(* element was the only one"; TLC refutes it (MCSplay3bug.cfg).            *)
(*                                                                         *)
(* TLC checks (MCSplay*.cfg): structural audit in every reachable state    *)
(* (search-tree order, list = in-order walk, count) and, for every         *)
(* transition, that B refines the contract SetMap (results, size, walk     *)
(* order, cleanup calls).                                                  *)
(***************************************************************************)
EXTENDS Integers, Sequences, FiniteSets, TLC

CONSTANTS Keys,             \* finite set of integers (ranks of the concrete keys)
          StaleMode,        \* "poison": an inserted node object holds four non-node values in its links;
                            \* "all": any combination of NULL, a non-node value and the live nodes
          BugStaleLinks     \* BOOLEAN; TRUE re-introduces the defect described above (must be refuted)

NULL == 0
HDR  == -1                  \* the on-stack header node "N" of set_splay
POISON == -2                \* a link value that is neither NULL nor a live node (freed / foreign / removed node)

VARIABLES
    root, count,            \* struct set
    l, r, prv, nxt,         \* struct set_node, as functions over the live nodes
    key,                    \* key stored in the element that follows the node
    nid,                    \* next element id ("next allocation")
    cl, kept,               \* ghosts: bag of cleanup calls made; ids handed back with no_dispose
    op                      \* observation of the last call (what the caller sees)

vars == <<root, count, l, r, prv, nxt, key, nid, cl, kept, op>>

Nodes == DOMAIN key

\* what the l, r, prev, next fields of a node object may hold when it is handed to set_insert
StaleVals  == IF StaleMode = "poison" THEN {POISON} ELSE Nodes \cup {NULL, POISON}
StaleLinks == [l : StaleVals, r : StaleVals, prv : StaleVals, nxt : StaleVals]
NullLinks  == [l |-> NULL, r |-> NULL, prv |-> NULL, nxt |-> NULL]          \* a node fresh from xmalloc (calloc)
PoisonLinks == [l |-> POISON, r |-> POISON, prv |-> POISON, nxt |-> POISON]

EmptyF == [x \in {} |-> 0]
Drop(f, S) == [x \in DOMAIN f \ S |-> f[x]]

\* set->compare(datum, element): every stock comparator is the sign of the rank difference
Compare(a, b) == IF a > b THEN 1 ELSE IF a < b THEN -1 ELSE 0

-----------------------------------------------------------------------------
(* static int set_splay(struct set *set, const void *datum) -- the top-down loop.
   s = [node, l, r, ltail, rtail, res]; l and r include the header HDR.           *)
RECURSIVE SplayLoop(_, _, _)
SplayLoop(s, d, ky) ==
    LET node == s.node
        res  == Compare(d, ky[node])
    IN
    IF res = 0 THEN [s EXCEPT !.res = 0]                                   \* if (!res) break;
    ELSE IF res < 0 THEN
        IF s.l[node] = NULL THEN [s EXCEPT !.res = res]                    \* if (!node->l) break;
        ELSE LET res2 == Compare(d, ky[s.l[node]]) IN
            IF res2 < 0 THEN                                               \* rotate right
                LET y  == s.l[node]
                    l1 == [s.l EXCEPT ![node] = s.r[y]]                    \* node->l = y->r;
                    r1 == [s.r EXCEPT ![y] = node]                         \* y->r = node; node = y;
                IN IF l1[y] = NULL
                   THEN [s EXCEPT !.node = y, !.l = l1, !.r = r1, !.res = res2]   \* if (!node->l) break;
                   ELSE SplayLoop([s EXCEPT !.node = l1[y],                \* r->l = node; r = node; node = node->l;
                                            !.l = [l1 EXCEPT ![s.rtail] = y],
                                            !.r = r1, !.rtail = y, !.res = res2], d, ky)
            ELSE SplayLoop([s EXCEPT !.node = s.l[node],                   \* link right
                                     !.l = [s.l EXCEPT ![s.rtail] = node],
                                     !.rtail = node, !.res = res2], d, ky)
    ELSE
        IF s.r[node] = NULL THEN [s EXCEPT !.res = res]                    \* if (!node->r) break;
        ELSE LET res2 == Compare(d, ky[s.r[node]]) IN
            IF res2 > 0 THEN                                               \* rotate left
                LET y  == s.r[node]
                    r1 == [s.r EXCEPT ![node] = s.l[y]]                    \* node->r = y->l;
                    l1 == [s.l EXCEPT ![y] = node]                         \* y->l = node; node = y;
                IN IF r1[y] = NULL
                   THEN [s EXCEPT !.node = y, !.l = l1, !.r = r1, !.res = res2]   \* if (!node->r) break;
                   ELSE SplayLoop([s EXCEPT !.node = r1[y],                \* l->r = node; l = node; node = node->r;
                                            !.r = [r1 EXCEPT ![s.ltail] = y],
                                            !.l = l1, !.ltail = y, !.res = res2], d, ky)
            ELSE SplayLoop([s EXCEPT !.node = s.r[node],                   \* link left
                                     !.r = [s.r EXCEPT ![s.ltail] = node],
                                     !.ltail = node, !.res = res2], d, ky)

(* returns [root, l, r, res]; rt is the root of the (sub)tree that is splayed *)
SetSplay(rt, ll, rr, d, ky) ==
    IF rt = NULL THEN [root |-> NULL, l |-> ll, r |-> rr, res |-> 0]       \* if (!set->root) return 0;
    ELSE
    LET s  == SplayLoop([node |-> rt, l |-> (HDR :> NULL) @@ ll, r |-> (HDR :> NULL) @@ rr,
                         ltail |-> HDR, rtail |-> HDR, res |-> 0], d, ky)
        n  == s.node
        r1 == [s.r EXCEPT ![s.ltail] = s.l[n]]                             \* l->r = node->l;
        l1 == [s.l EXCEPT ![s.rtail] = r1[n]]                              \* r->l = node->r;
        l2 == [l1  EXCEPT ![n] = r1[HDR]]                                  \* node->l = N.r;
        r2 == [r1  EXCEPT ![n] = l2[HDR]]                                  \* node->r = N.l;
    IN [root |-> n, l |-> Drop(l2, {HDR}), r |-> Drop(r2, {HDR}), res |-> s.res]

-----------------------------------------------------------------------------
(* walks over an explicit structure (so that they can be applied to the next state).  A link that is neither
   NULL nor a live node (only possible with BugStaleLinks) ends a walk: the value is reported, not followed. *)
RECURSIVE Leftmost(_, _)
Leftmost(n, ll) == IF n \notin DOMAIN ll \/ ll[n] = NULL THEN n ELSE Leftmost(ll[n], ll)
SetFirst(rt, ll) == IF rt = NULL THEN NULL ELSE Leftmost(rt, ll)          \* set_first()

RECURSIVE Chase(_, _, _)
Chase(n, f, fuel) == IF n = NULL \/ fuel = 0 THEN <<>>                     \* set_next()/set_prev() until NULL
                     ELSE IF n \notin DOMAIN f THEN <<n>>
                     ELSE <<n>> \o Chase(f[n], f, fuel - 1)

RECURSIVE InOrder(_, _, _)
InOrder(n, ll, rr) == IF n = NULL THEN <<>> ELSE IF n \notin DOMAIN ll THEN <<n>>
                      ELSE InOrder(ll[n], ll, rr) \o <<n>> \o InOrder(rr[n], ll, rr)

RECURSIVE PreOrder(_, _, _, _)                                             \* tree shape: key, left, right; 0 = NULL
PreOrder(n, ll, rr, ky) == IF n = NULL THEN <<0>> ELSE IF n \notin DOMAIN ky THEN <<-9>>
                           ELSE <<ky[n]>> \o PreOrder(ll[n], ll, rr, ky) \o PreOrder(rr[n], ll, rr, ky)

Last(s) == IF s = <<>> THEN NULL ELSE s[Len(s)]
Fwd(rt, ll, nx)   == Chase(SetFirst(rt, ll), nx, Cardinality(DOMAIN nx) + 1)
Bwd(rt, ll, nx, pv) == Chase(Last(Fwd(rt, ll, nx)), pv, Cardinality(DOMAIN nx) + 1)
Shape == PreOrder(root, l, r, key)

(* the observation record, same fields as SetMap!Obs; fwd/bwd are what a caller gets from
   set_first/set_next and set_prev on the structure st = [root, l, r, prv, nxt, key, count] *)
Obs(o, k, nd, e, res, cleaned, st) ==
    LET f == Fwd(st.root, st.l, st.nxt) IN
    [o |-> o, k |-> k, nd |-> nd, id |-> e, res |-> res, cleaned |-> cleaned, size |-> st.count,
     fwd |-> [i \in 1..Len(f) |-> <<IF f[i] \in DOMAIN st.key THEN st.key[f[i]] ELSE 0, f[i]>>],
     bwd |-> Bwd(st.root, st.l, st.nxt, st.prv)]

Commit(st, o, k, nd, e, res, cleaned, released) ==
    /\ root' = st.root /\ count' = st.count /\ l' = st.l /\ r' = st.r
    /\ prv' = st.prv /\ nxt' = st.nxt /\ key' = st.key
    /\ cl' = [x \in DOMAIN cl \cup {cleaned[i] : i \in DOMAIN cleaned} |->
                (IF x \in DOMAIN cl THEN cl[x] ELSE 0) + Cardinality({i \in DOMAIN cleaned : cleaned[i] = x})]
    /\ kept' = kept \cup released
    /\ op' = Obs(o, k, nd, e, res, cleaned, st)

Cur == [root |-> root, count |-> count, l |-> l, r |-> r, prv |-> prv, nxt |-> nxt, key |-> key]

-----------------------------------------------------------------------------
(* void set_insert(struct set *set, struct set_node *node) -- node n = a new element identity with key k,
   in a node object whose links hold st on entry.  InsertSt yields the structure after the call and the
   node disposed by a replacement (NULL if none).  lin/rin/pin/nin = the links with the object added as it
   came; every "![n] = ..." below is one assignment of the C code to a link of the inserted node. *)
InsertSt(k, st) ==
    LET n == nid IN
    IF root = NULL
    THEN \* node->l = node->r = node->next = node->prev = NULL;
         [st |-> [root |-> n, count |-> count + 1,
                  l   |-> [(n :> st.l) @@ l     EXCEPT ![n] = NULL],
                  r   |-> [(n :> st.r) @@ r     EXCEPT ![n] = NULL],
                  prv |-> [(n :> st.prv) @@ prv EXCEPT ![n] = NULL],
                  nxt |-> [(n :> st.nxt) @@ nxt EXCEPT ![n] = NULL],
                  key |-> (n :> k) @@ key],
          dead |-> NULL]
    ELSE
    LET ky  == (n :> k) @@ key
        sp  == SetSplay(root, l, r, k, key)
        t   == sp.root
        lin == (n :> st.l) @@ sp.l
        rin == (n :> st.r) @@ sp.r
        pin == (n :> st.prv) @@ prv
        nin == (n :> st.nxt) @@ nxt
        \* links of the new node and of the old root, before the neighbour fix-up
        a  == IF sp.res < 0 THEN
                 [l |-> [lin EXCEPT ![n] = sp.l[t], ![t] = NULL],       \* node->l = root->l; root->l = NULL;
                  r |-> [rin EXCEPT ![n] = t],                          \* node->r = root;
                  prv |-> [pin EXCEPT ![n] = prv[t]],                   \* node->prev = root->prev;
                  nxt |-> [nin EXCEPT ![n] = t],                        \* node->next = root;
                  key |-> ky, dead |-> NULL, cnt |-> count]
              ELSE IF sp.res > 0 THEN
                 [l |-> [lin EXCEPT ![n] = t],                          \* node->l = root;
                  r |-> [rin EXCEPT ![n] = sp.r[t], ![t] = NULL],       \* node->r = root->r; root->r = NULL;
                  prv |-> [pin EXCEPT ![n] = t],                        \* node->prev = root;
                  nxt |-> [nin EXCEPT ![n] = nxt[t]],                   \* node->next = root->next;
                  key |-> ky, dead |-> NULL, cnt |-> count]
              ELSE IF BugStaleLinks /\ count = 1 THEN
                 \* DEFECT (switch): the equal element is retired with set_remove(); it was the only one, the
                 \* tree is empty, set_splay() returns 0 and neither linking branch runs: NO link is written
                 [l |-> Drop(lin, {t}), r |-> Drop(rin, {t}), prv |-> Drop(pin, {t}), nxt |-> Drop(nin, {t}),
                  key |-> Drop(ky, {t}), dead |-> t, cnt |-> count - 1]
              ELSE                                                      \* memcpy(node, root): all four links
                 [l |-> Drop([lin EXCEPT ![n] = sp.l[t]], {t}),         \*   node->l = root->l
                  r |-> Drop([rin EXCEPT ![n] = sp.r[t]], {t}),         \*   node->r = root->r
                  prv |-> Drop([pin EXCEPT ![n] = prv[t]], {t}),        \*   node->prev = root->prev
                  nxt |-> Drop([nin EXCEPT ![n] = nxt[t]], {t}),        \*   node->next = root->next
                  key |-> Drop(ky, {t}), dead |-> t, cnt |-> count - 1] \* dispose(root); count--;
        \* if (node->prev) node->prev->next = node;  if (node->next) node->next->prev = node;
        \* (a write through a link that is no live node is outside the model; the audit rejects that state)
        nx2 == IF a.prv[n] \in DOMAIN a.nxt THEN [a.nxt EXCEPT ![a.prv[n]] = n] ELSE a.nxt
        pv2 == IF a.nxt[n] \in DOMAIN a.prv THEN [a.prv EXCEPT ![a.nxt[n]] = n] ELSE a.prv
    IN [st |-> [root |-> n, count |-> a.cnt + 1, l |-> a.l, r |-> a.r, prv |-> pv2, nxt |-> nx2, key |-> a.key],
        dead |-> a.dead]

Insert(k, st) ==
    LET R == InsertSt(k, st) IN
    /\ nid' = nid + 1
    /\ Commit(R.st, "ins", k, FALSE, nid, NULL, IF R.dead = NULL THEN <<>> ELSE <<R.dead>>, {})

(* void *set_find(struct set *set, const void *datum) *)
Find(k) ==
    /\ UNCHANGED nid
    /\ IF root = NULL THEN Commit(Cur, "find", k, FALSE, NULL, NULL, <<>>, {})
       ELSE LET sp == SetSplay(root, l, r, k, key) IN
            Commit([Cur EXCEPT !.root = sp.root, !.l = sp.l, !.r = sp.r],
                   "find", k, FALSE, NULL, IF sp.res # 0 THEN NULL ELSE sp.root, <<>>, {})

(* struct set_node *set_lower(struct set *set, const void *datum) *)
Lower(k) ==
    /\ UNCHANGED nid
    /\ IF root = NULL THEN Commit(Cur, "lower", k, FALSE, NULL, NULL, <<>>, {})
       ELSE LET sp == SetSplay(root, l, r, k, key) IN
            Commit([Cur EXCEPT !.root = sp.root, !.l = sp.l, !.r = sp.r],
                   "lower", k, FALSE, NULL, IF sp.res > 0 THEN nxt[sp.root] ELSE sp.root, <<>>, {})

(* int set_remove(struct set *set, void *datum, int no_dispose) *)
Remove(k, nd) ==
    /\ UNCHANGED nid
    /\ IF root = NULL THEN Commit(Cur, "rem", k, nd, NULL, 0, <<>>, {})
       ELSE LET sp == SetSplay(root, l, r, k, key) IN
       IF sp.res # 0
       THEN Commit([Cur EXCEPT !.root = sp.root, !.l = sp.l, !.r = sp.r], "rem", k, nd, NULL, 0, <<>>, {})
       ELSE
       LET old == sp.root
           \* join: splay the left subtree for the same datum (its maximum comes up), hang the right subtree
           j   == IF sp.l[old] = NULL
                  THEN [root |-> sp.r[old], l |-> sp.l, r |-> sp.r]
                  ELSE LET s2 == SetSplay(sp.l[old], sp.l, sp.r, k, key)
                       IN [root |-> s2.root, l |-> s2.l, r |-> [s2.r EXCEPT ![s2.root] = sp.r[old]]]
           nx1 == IF prv[old] # NULL THEN [nxt EXCEPT ![prv[old]] = nxt[old]] ELSE nxt
           pv1 == IF nxt[old] # NULL THEN [prv EXCEPT ![nxt[old]] = prv[old]] ELSE prv
       IN Commit([root |-> j.root, count |-> count - 1, l |-> Drop(j.l, {old}), r |-> Drop(j.r, {old}),
                  prv |-> Drop(pv1, {old}), nxt |-> Drop(nx1, {old}), key |-> Drop(key, {old})],
                 "rem", k, nd, NULL, 1, IF nd THEN <<>> ELSE <<old>>, IF nd THEN {old} ELSE {})

(* void set_clear(struct set *set, int no_dispose): walks the list from set_first() *)
Clear(nd) ==
    LET walk == Fwd(root, l, nxt) IN
    /\ UNCHANGED nid
    /\ Assert(Len(walk) = count, "set_clear: assert(ii == set->count)")
    /\ Commit([root |-> NULL, count |-> 0, l |-> EmptyF, r |-> EmptyF, prv |-> EmptyF, nxt |-> EmptyF, key |-> EmptyF],
              "clear", NULL, nd, NULL, NULL, IF nd THEN <<>> ELSE walk, IF nd THEN {walk[i] : i \in DOMAIN walk} ELSE {})

(* set_first / set_next to the end, then set_prev back: no effect on the structure *)
Iterate == /\ UNCHANGED nid
           /\ Commit(Cur, "iter", NULL, FALSE, NULL, NULL, <<>>, {})

Init == /\ root = NULL /\ count = 0
        /\ l = EmptyF /\ r = EmptyF /\ prv = EmptyF /\ nxt = EmptyF /\ key = EmptyF
        /\ nid = 1 /\ cl = EmptyF /\ kept = {}
        /\ op = Obs("init", NULL, FALSE, NULL, NULL, <<>>, Cur)

Next == \/ \E k \in Keys : \/ \E st \in StaleLinks : Insert(k, st)
                          \/ Find(k) \/ Lower(k) \/ Remove(k, TRUE) \/ Remove(k, FALSE)
        \/ Clear(TRUE) \/ Clear(FALSE) \/ Iterate

Spec == Init /\ [][Next]_vars

-----------------------------------------------------------------------------
(* Structural audit (state invariants) *)
Walk == InOrder(root, l, r)

TypeOK == /\ root \in Nodes \cup {NULL} /\ count \in Nat
          /\ DOMAIN l = Nodes /\ DOMAIN r = Nodes /\ DOMAIN prv = Nodes /\ DOMAIN nxt = Nodes
          /\ \A n \in Nodes : /\ key[n] \in Keys
                              /\ l[n] \in Nodes \cup {NULL} /\ r[n] \in Nodes \cup {NULL}
                              /\ prv[n] \in Nodes \cup {NULL} /\ nxt[n] \in Nodes \cup {NULL}

\* search-tree order: the in-order walk has strictly increasing keys
SearchTreeOrder == \A i \in 1..(Len(Walk) - 1) : key[Walk[i]] < key[Walk[i + 1]]
\* no garbage, no sharing: every live node is in the tree exactly once
TreeIsAllNodes == /\ {Walk[i] : i \in DOMAIN Walk} = Nodes
                  /\ Len(Walk) = Cardinality(Nodes)
\* the threaded list is the in-order walk, in both directions
ListIsInOrder == /\ Fwd(root, l, nxt) = Walk
                 /\ \A i \in DOMAIN Walk :
                       /\ nxt[Walk[i]] = IF i = Len(Walk) THEN NULL ELSE Walk[i + 1]
                       /\ prv[Walk[i]] = IF i = 1 THEN NULL ELSE Walk[i - 1]
CountOK == count = Len(Walk)

\* set_insert writes all four links of the node it is given, on every path: whatever the object held,
\* the structure after the call is the one for a zeroed node
InsertIgnoresStale == \A k \in Keys : \A st \in StaleLinks : InsertSt(k, st) = InsertSt(k, NullLinks)

-----------------------------------------------------------------------------
(* Refinement: B implements the contract.  Node ids are element ids. *)
AbsMap == [k \in {key[n] : n \in Nodes} |-> CHOOSE n \in Nodes : key[n] = k]
AbsOp  == [op EXCEPT !.cleaned = [x \in {op.cleaned[i] : i \in DOMAIN op.cleaned} |->
                                     Cardinality({i \in DOMAIN op.cleaned : op.cleaned[i] = x})]]
A == INSTANCE SetMap WITH m <- AbsMap, op <- AbsOp
Refines == A!Spec

(* The same obligation with the contract's action selected by the observed call instead of searched
   for (each disjunct below is a disjunct of A!Next, so RefinesDirected => Refines; about 30 times
   cheaper for TLC to evaluate on every transition of the 7-key model). *)
DirectedStep == LET o == op' IN
                CASE o.o = "ins"   -> A!Insert(o.k)
                  [] o.o = "find"  -> A!Find(o.k)
                  [] o.o = "lower" -> A!Lower(o.k)
                  [] o.o = "rem"   -> A!Remove(o.k, o.nd)
                  [] o.o = "clear" -> A!Clear(o.nd)
                  [] o.o = "iter"  -> A!Iterate
                  [] OTHER         -> FALSE
RefinesDirected == A!Init /\ [][DirectedStep]_(A!vars)
=============================================================================
