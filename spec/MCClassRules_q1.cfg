\* quick: one rule (name B2) with every subset of the five criteria (one pattern each), class present or absent,
\* trust_username on or off; clients: 2 values per attribute x every reply state of the two services
CONSTANTS
  CBug <- Bug_none
  Names <- N_1
  AcctP <- Acct_1
  AddrP <- Addr_1
  UserP <- User_1
  HostP <- Host_1
  OkP <- Ok_1
  ClassP <- Class_1
  TrustP <- BoolSet
  MaxRules = 1
  MaxCrit = 5
  Svcs <- S_ld
  CAcct <- CAcct_2
  CAddr <- CAddr_2
  CIdent <- CIdent_2
  CHost <- CHost_2
  CUser <- CUser_1
  LoginSt <- Login_all
  DroneSt <- Drone_all
  EmitMod = 0
INIT Init
NEXT Next
ACTION_CONSTRAINT Emit
INVARIANT VecOrder
INVARIANT OrderIndep
INVARIANT VecIsConf
INVARIANT Unique
INVARIANT ImplClass
INVARIANT ImplUline
INVARIANT ImplExact
