\* C20: edges declared from the other end with module_antidepends() (a back-end pulls in / names its user): every case on <= 3 modules, module_depends() calls before module_antidepends() calls in name order, every listing, all entry points
SPECIFICATION Spec
CONSTANTS
    Source = "enum"
    MaxN = 3
    SelfLoops = FALSE
    DepOrders = "asc"
    WithMissing = FALSE
    WithAnti = TRUE
    Profiles = "full"
    Bug = "none"
INVARIANTS
    TypeOK LoadingIsInnermostCtor RdependsMirrorsDepends SetEmptyAtExit NoGhostInGoodCase
    B_CtorOnce B_DepsConstructedFirst B_PostInitOnce B_PostInitAfterDeps B_DtorBeforeDeps
    B_StartsComplete B_StopsClean B_AbortsWithError B_NeverRunsPartial
INVARIANT AntiUnloadedAfter
ACTION_CONSTRAINT EmitCase
