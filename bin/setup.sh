#!/bin/sh
# Run once after a fresh restore, offline.  Nothing to fetch: the framework is Python (stdlib only)
# + TLA+ specs + C harnesses that every check rebuilds (vlib/build.py) from /repo's working tree.
set -e
cd "$(dirname "$0")/.."
mkdir -p evidence replays "${VERIF_SCRATCH:-/var/tmp}/iauthd-verif"
python3 -c "import sys; assert sys.version_info >= (3, 8)"
java -version >/dev/null 2>&1
test -f /opt/veriftools/tla/tla2tools.jar
python3 vlib/build.py >/dev/null
echo "setup ok"
