\* C20: thorough: every case on <= 4 modules without self-dependencies (4096 graphs on 4), calls in name order, every listing (a missing module: ModLoad_orders.cfg and the drawn cases)
SPECIFICATION Spec
CONSTANTS
    Source = "enum"
    MaxN = 4
    SelfLoops = FALSE
    DepOrders = "asc"
    WithMissing = FALSE
    WithAnti = FALSE
    Profiles = "full"
    Bug = "none"
INVARIANTS
    TypeOK LoadingIsInnermostCtor RdependsMirrorsDepends SetEmptyAtExit NoGhostInGoodCase
    B_CtorOnce B_DepsConstructedFirst B_PostInitOnce B_PostInitAfterDeps B_DtorBeforeDeps
    B_StartsComplete B_StopsClean B_AbortsWithError B_NeverRunsPartial
ACTION_CONSTRAINT EmitCase
