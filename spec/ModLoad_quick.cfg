\* C20: quick: every case on <= 3 modules (self-dependencies allowed, module_depends() calls in name order, every listing, optionally one module without a shared object); every hook profile (which modules lack module_post_init / module_destructor) for the GOOD cases, all hooks for the others (Python draws profiles for a sample of those)
SPECIFICATION Spec
CONSTANTS
    Source = "enum"
    MaxN = 3
    SelfLoops = TRUE
    DepOrders = "asc"
    WithMissing = TRUE
    WithAnti = FALSE
    Profiles = "good"
    Bug = "none"
INVARIANTS
    TypeOK RdependsMirrorsDepends SetEmptyAtExit NoGhostInGoodCase
    B_CtorOnce B_DepsConstructedFirst B_PostInitOnce B_PostInitAfterDeps B_DtorBeforeDeps
    B_StartsComplete B_StopsClean B_AbortsWithError B_NeverRunsPartial
ACTION_CONSTRAINT EmitCase
