----------------------------- MODULE NonInterf -----------------------------
(***************************************************************************)
(* Non-interference of concurrent clients (property C07) as a 2-safety     *)
(* property, checked by self-composition of the implementation-shaped      *)
(* specification IAuth.tla:                                                *)
(*                                                                         *)
(*   world 1 (W1) runs the request engine on an arbitrary interleaving of  *)
(*           the traffic of the observed client id A and of other ids;     *)
(*   world 2 (W2) runs a second copy of the engine on A's own events only  *)
(*           (its announcements, data, passwords, timeout, the replies     *)
(*           addressed to A's routing tags), in the same order.            *)
(*                                                                         *)
(* Routing tags contain a global serial, so the two worlds name A's        *)
(* instances differently; "up to the serial component" is made precise by  *)
(* numbering A's instances: tags1[k] / tags2[k] is the tag of A's k-th     *)
(* announcement in W1 / W2, replies are generated per instance number and  *)
(* rendered with the world's own tag, and outputs are compared after       *)
(* replacing a tag by its instance number.                                 *)
(*                                                                         *)
(* Invariants (checked by TLC over all interleavings for small bounds):    *)
(*   SameConversation  on a step about A, both worlds print the same lines *)
(*   SilentOthers      on a step about another id (or a reply addressed    *)
(*                     to another id's tag) W1 prints nothing that names A *)
(*   SameState         A's request record is the same in both worlds (up   *)
(*                     to its serial)                                      *)
(***************************************************************************)
EXTENDS Integers, Sequences, FiniteSets, TLC, Json

CONSTANTS
    Services, TimeoutOn, Bug,
    A,            \* the observed client id
    Others,       \* the other client ids
    MaxInstA,     \* announcements of A
    MaxInstO,     \* announcements per other id
    MaxPw,        \* password lines per instance
    OtherFull,    \* BOOLEAN: the other ids send every kind of line (FALSE: announce, nick, hurry-up, +x / +! password,
                  \* replies OK+account / NO / MORE / unlinked, timeout, disconnect - enough to reach every shared structure)
    EmitMod,      \* print every EmitMod-th behaviour of world 1 (0 = none)
    NIBug         \* model mutants (anti-vacuity): "SHAREDPW" = the password buffer is shared between requests

VARIABLES
    s1, r1, sl1, ev1, out1,      \* world 1
    s2, r2, sl2, ev2, out2,      \* world 2
    tags1, tags2,                \* routing tags of A's instances, by instance number
    inst, npw,                   \* environment bounds
    about,                       \* "A" / "other": whom the last step was about
    hist                         \* ghost: world 1's event sequence (hidden by the VIEW; printed by Emit)

W1 == INSTANCE IAuth WITH serial <- s1, req <- r1, slots <- sl1, ev <- ev1, out <- out1
W2 == INSTANCE IAuth WITH serial <- s2, req <- r2, slots <- sl2, ev <- ev2, out <- out2

nivars == <<s1, r1, sl1, ev1, out1, s2, r2, sl2, ev2, out2, tags1, tags2, inst, npw, about, hist>>

Ids == {A} \cup Others

NIInit == /\ W1!Init /\ W2!Init
          /\ tags1 = <<>> /\ tags2 = <<>>
          /\ inst = [i \in Ids |-> 0]
          /\ npw = [i \in Ids |-> 0]
          /\ about = "other"
          /\ hist = <<>>

-----------------------------------------------------------------------------
(* environment: the events of one id, given the state of the world that generates them *)
DataEvents(i) ==
    \* every client has its own texts: a value leaking from one client's record into another's lines is visible
    { [e |-> "N", id |-> i, host |-> <<"h" \o W1!Hex(i), 12>>], [e |-> "d", id |-> i],
      [e |-> "u", id |-> i, ident |-> <<"i" \o W1!Hex(i), 4>>], [e |-> "u0", id |-> i],
      [e |-> "n", id |-> i, nick |-> <<"n" \o W1!Hex(i), 5>>],
      [e |-> "U", id |-> i, user |-> <<"c" \o W1!Hex(i), 6>>, tilde |-> 0, real |-> <<"r" \o W1!Hex(i), 11>>],
      [e |-> "H", id |-> i] }

\* passwords of different clients are different texts (a shared buffer would show)
PasswordEvents(i) ==
    { [e |-> "P", id |-> i, shape |-> "ok", modes |-> m, cred |-> <<"p" \o W1!Hex(i), 10>>, raw |-> <<"P" \o W1!Hex(i), 0>>]
        : m \in { <<"+", "x">>, <<"+", "!">>, <<"-", "!">> } }
    \cup { [e |-> "P", id |-> i, shape |-> "nomode", modes |-> <<>>, cred |-> <<"p" \o W1!Hex(i), 10>>, raw |-> <<"Pn" \o W1!Hex(i), 0>>] }

ReplyKinds == {"OK", "OKA", "OKE", "NO", "AGAIN", "MORE", "UNL"}
ReplyEv(s, tag, k, i) == [e |-> "X", svc |-> s, tag |-> tag, kind |-> k, acct |-> <<"ac" \o W1!Hex(i), 8>>,
                          text |-> <<"t" \o W1!Hex(i), 9>>, trail |-> "", oid |-> i]

\* events of another id (world 1 only)
ODataEvents(i) == IF OtherFull THEN DataEvents(i) \cup {[e |-> "T", id |-> i]}
                  ELSE {[e |-> "n", id |-> i, nick |-> <<"n" \o W1!Hex(i), 5>>], [e |-> "H", id |-> i]}
OPasswordEvents(i) == IF OtherFull THEN PasswordEvents(i) ELSE {e \in PasswordEvents(i) : e.shape = "ok" /\ e.modes[1] = "+"}
OReplyKinds == IF OtherFull THEN ReplyKinds ELSE {"OKA", "NO", "MORE", "UNL"}
OtherEvents(i) ==
    (IF inst[i] < MaxInstO THEN {[e |-> "C", id |-> i, addr |-> "A" \o W1!Hex(i), port |-> 1000 + i]} ELSE {})
    \cup (IF i \in DOMAIN r1 THEN ODataEvents(i) \cup {[e |-> "D", id |-> i]} ELSE {})
    \cup (IF i \in DOMAIN r1 /\ npw[i] < MaxPw THEN OPasswordEvents(i) ELSE {})
    \cup (IF i \in DOMAIN r1 /\ r1[i].timer = "armed" THEN {[e |-> "TO", id |-> i]} ELSE {})
    \cup (IF i \in DOMAIN r1
          THEN { ReplyEv(sl1[s].name, W1!Routing(i, r1[i].serial), k, i) : s \in r1[i].ref, k \in OReplyKinds }
          ELSE {})

\* events of A that carry no tag (same record in both worlds); generated from world 2's view of A
OwnPlain ==
    (IF inst[A] < MaxInstA THEN {[e |-> "C", id |-> A, addr |-> "A" \o W1!Hex(A), port |-> 1000 + A]} ELSE {})
    \cup (IF A \in DOMAIN r2 THEN DataEvents(A) \cup {[e |-> "D", id |-> A], [e |-> "T", id |-> A]} ELSE {})
    \cup (IF A \in DOMAIN r2 /\ npw[A] < MaxPw THEN PasswordEvents(A) ELSE {})
    \cup (IF A \in DOMAIN r2 /\ r2[A].timer = "armed" THEN {[e |-> "TO", id |-> A]} ELSE {})

\* replies addressed to an instance of A: <<instance number, service name, kind>>; current instance awaited
\* services (world 2's view) and every service for stale instances
OwnReplies ==
    (IF A \in DOMAIN r2
     THEN { <<Len(tags2), sl2[s].name, k>> : s \in r2[A].ref, k \in ReplyKinds }
     ELSE {})
    \cup { <<n, Services[s].name, k>> : n \in 1..(Len(tags2) - 1), s \in 1..Len(Services), k \in {"OKA", "NO"} }

-----------------------------------------------------------------------------
StepOther(e) ==
    /\ W1!Step(e)
    /\ UNCHANGED <<s2, r2, sl2, ev2, out2, tags1, tags2>>
    /\ inst' = IF e.e = "C" THEN [inst EXCEPT ![e.id] = @ + 1] ELSE inst
    /\ npw' = IF e.e = "C" THEN [npw EXCEPT ![e.id] = 0]
              ELSE IF e.e = "P" THEN [npw EXCEPT ![e.id] = @ + 1] ELSE npw
    /\ about' = "other"
    /\ hist' = Append(hist, [e |-> e])

StepOwnPlain(e) ==
    /\ W1!Step(e)
    /\ W2!Step(e)
    /\ tags1' = IF e.e = "C" THEN Append(tags1, W1!Routing(A, s1 + 1)) ELSE tags1
    /\ tags2' = IF e.e = "C" THEN Append(tags2, W2!Routing(A, s2 + 1)) ELSE tags2
    /\ inst' = IF e.e = "C" THEN [inst EXCEPT ![A] = @ + 1] ELSE inst
    /\ npw' = IF e.e = "C" THEN [npw EXCEPT ![A] = 0]
              ELSE IF e.e = "P" THEN [npw EXCEPT ![A] = @ + 1] ELSE npw
    /\ about' = "A"
    /\ hist' = Append(hist, [e |-> e])

StepOwnReply(x) ==
    /\ W1!Step(ReplyEv(x[2], tags1[x[1]], x[3], A))
    /\ W2!Step(ReplyEv(x[2], tags2[x[1]], x[3], A))
    /\ UNCHANGED <<tags1, tags2, inst, npw>>
    /\ about' = "A"
    /\ hist' = Append(hist, [e |-> ReplyEv(x[2], tags1[x[1]], x[3], A)])

\* model mutants: interference channels re-introduced on purpose (the invariants must catch them)
MutantShare ==
    \* a password line of another client overwrites A's stored password too (a shared static buffer)
    /\ "SHAREDPW" \in NIBug
    /\ \E i \in Others : i \in DOMAIN r1 /\ A \in DOMAIN r1 /\ r1[A].password # W1!Nil
         /\ r1' = [r1 EXCEPT ![A].password = <<"p" \o W1!Hex(i), 10>>]
    /\ UNCHANGED <<s1, sl1, ev1, out1, s2, r2, sl2, ev2, out2, tags1, tags2, inst, npw, hist>>
    /\ about' = "other"

NINext == \/ \E i \in Others : \E e \in OtherEvents(i) : StepOther(e)
          \/ \E e \in OwnPlain : StepOwnPlain(e)
          \/ \E x \in OwnReplies : StepOwnReply(x)
          \/ MutantShare

\* one complete world-1 behaviour per explored transition (sampled)
\* transitions in which another client's reply arrives while the observed client awaits an answer itself are where the
\* per-service shared state (reference counts, "is anybody waiting") is exercised: they are sampled ten times as densely
SharedSvcStep == LET e == hist'[Len(hist')].e IN
                 e.e = "X" /\ e.oid # A /\ A \in DOMAIN r1 /\ r1[A].ref # {}
Emit == \/ EmitMod = 0
        \/ (EmitMod > 1 /\ RandomElement(1..(IF SharedSvcStep THEN 1 + EmitMod \div 10 ELSE EmitMod)) # 1)
        \/ PrintT("@@E" \o ToJson(hist'))

NISpec == NIInit /\ [][NINext]_nivars

-----------------------------------------------------------------------------
(* comparison up to the serial component of routing tags *)
TagNo(tags, t) == LET ks == {k \in 1..Len(tags) : tags[k] = t} IN IF ks = {} THEN 0 ELSE CHOOSE k \in ks : TRUE
NormMsg(m, tags) == IF m.k = "X" THEN [m EXCEPT !.tag = IF TagNo(tags, m.tag) # 0 THEN "inst" \o ToString(TagNo(tags, m.tag)) ELSE "raw:" \o m.tag]
                    ELSE m
Norm(o, tags) == [k \in 1..Len(o) |-> NormMsg(o[k], tags)]

NamesA(m, tags) == (m.k # "X" /\ m.k # ">" /\ m.k # "a" /\ m.k # "A" /\ m.id = A) \/ (m.k = "X" /\ TagNo(tags, m.tag) # 0)

SameConversation == about = "A" => Norm(out1, tags1) = Norm(out2, tags2)
SilentOthers == about = "other" => \A k \in 1..Len(out1) : ~NamesA(out1[k], tags1)
EraseSerial(r) == [r EXCEPT !.serial = 0]
SameState == /\ (A \in DOMAIN r1) = (A \in DOMAIN r2)
             /\ A \in DOMAIN r1 => EraseSerial(r1[A]) = EraseSerial(r2[A])

\* state identity: the ghosts ev/out are part of the invariants' input, keep them
NoNIBug == {}
NIBugShare == {"SHAREDPW"}
NoBug == {}
S_q1 == << [name |-> "a1.svc", type |-> "login"], [name |-> "b2.svc", type |-> "dronecheck"] >>
S_t1c == << [name |-> "a1.svc", type |-> "login"], [name |-> "b2.svc", type |-> "login"] >>
S_t1d == << [name |-> "a1.svc", type |-> "combined"] >>
S_t1b == << [name |-> "a1.svc", type |-> "login-ipr"], [name |-> "b2.svc", type |-> "dronecheck"] >>
O1 == {6}
O2 == {4, 6}
NIView == <<s1, r1, sl1, s2, r2, sl2, tags1, tags2, inst, npw, about,
            Norm(out1, tags1), IF about = "A" THEN Norm(out2, tags2) ELSE <<>> >>
=============================================================================
