----------------------------- MODULE MCLogRoute -----------------------------
(* Universes for the exhaustive runs of LogRoute, and behaviour emission.   *)
EXTENDS LogRoute, Json, FiniteSetsExt

CONSTANTS SampleK,     \* print the behaviours of the explored (re)load transitions whose checksum is
          SampleR      \* SampleR modulo SampleK (1, 0: all of them) - a deterministic, seed-dependent sample

A == "file:a.log"
B == "file:b.log"
D == "file:d.log"      \* default target of modd

C(op, sev)     == [op |-> op, sev |-> sev]
H(fac, comps)  == [dot |-> TRUE, fac |-> fac, star |-> FALSE, comps |-> comps]
HStar(fac)     == [dot |-> TRUE, fac |-> fac, star |-> TRUE, comps |-> <<>>]
HNoDot(name)   == [dot |-> FALSE, fac |-> name, star |-> FALSE, comps |-> <<>>]
E(h, kind, ds) == [head |-> h, kind |-> kind, dests |-> ds]

NoDot == <<110,111,100,111,116>>     \* "nodot"

(* sections of at most n entries with pairwise different (name, type) keys *)
Subsets(Entries, n) == {{}} \cup {{x} : x \in Entries}
                       \cup (IF n >= 2 THEN {{x, y} : x \in Entries, y \in Entries} ELSE {})
                       \cup (IF n >= 3 THEN {{x, y, z} : x \in Entries, y \in Entries, z \in Entries} ELSE {})
SectionsUpTo(Entries, n) == {S \in Subsets(Entries, n) : \A x, y \in S : x # y => KeyOf(x) # KeyOf(y)}

Values4 == {<<"s", <<A>>>>, <<"s", <<B>>>>, <<"l", <<A, B>>>>, <<"l", <<B>>>>}

EntriesOf(Heads, Values) == {E(h, v[1], v[2]) : h \in Heads, v \in Values}

(* q: quick reload universe: 6 names (4 well-formed over 3 facilities, one with an unknown severity *)
(* word after a valid one, one without '.'), string and list values over 2 destinations             *)
QHeads == {H(Core, <<C("ge", WARNING)>>), H(Core, <<C("lit", 3)>>), H(Star, <<C("ge", WARNING)>>), HStar(Modx),
           H(Core, <<C("lit", 3), C("lit", 0)>>), HNoDot(NoDot)}

(* t: thorough reload universe: 8 names (every facility, `*.*`, a comma list with < and =, two   *)
(* malformed names), five values incl. the empty list                                               *)
THeads == {H(f, <<C("ge", WARNING)>>) : f \in {Core, Modx, Star}}
          \cup {H(Core, <<C("lit", 3)>>), HStar(Star),
                H(Modx, <<C("lt", 3), C("eq", 5)>>), H(Modx, <<C("lit", 3), C("lit", 0)>>), HNoDot(NoDot)}
Values5 == Values4 \cup {<<"l", <<>>>>}

(* t3: three entries over a smaller pool *)
T3Heads == {H(Core, <<C("ge", WARNING)>>), H(Core, <<C("le", 3)>>), HStar(Star), H(Modx, <<C("gt", 3), C("lit", 0)>>)}
T3Values == {<<"s", <<A>>>>, <<"s", <<B>>>>, <<"l", <<A, B>>>>, <<"l", <<A, A>>>>}

(* d: default-target universe: modd is registered with default target D *)
DHeads == {H(Modd, <<C("ge", 5)>>), H(Modd, <<C("lit", 3)>>), H(Modd, <<C("lit", WARNING), C("lit", 0)>>),
           H(Star, <<C("ge", WARNING)>>), HStar(Core)}
DValues == {<<"s", <<A>>>>, <<"s", <<D>>>>, <<"l", <<>>>>, <<"l", <<A, D>>>>}

(* s1 / s2 / s3: severity-expression universe: one entry  modx.<expr> -> a.log  for every expression *)
(* of up to 1 / 2 / 3 components over all operators and all severity words plus an unknown word      *)
AllComps == {C(op, sv) : op \in Ops, sv \in 0..NSev}
SevHeads(n) == {HStar(Modx), HNoDot(NoDot), H(Modx, <<>>)}
               \cup {H(Modx, cs) : cs \in [1..1 -> AllComps]}
               \cup (IF n >= 2 THEN {H(Modx, cs) : cs \in [1..2 -> AllComps]} ELSE {})
               \cup (IF n >= 3 THEN {H(Modx, cs) : cs \in [1..3 -> AllComps]} ELSE {})
SevSections(n) == {{E(h, "s", <<A>>)} : h \in SevHeads(n)}

(* TLC evaluates every zero-arity constant definition at start-up, so the universe is selected by a *)
(* constant and only that one is built                                                              *)
CONSTANT U
TheSections == CASE U = "q"  -> SectionsUpTo(EntriesOf(QHeads, Values4), 2)
                 [] U = "t"  -> SectionsUpTo(EntriesOf(THeads, Values5), 2)
                 [] U = "t3" -> SectionsUpTo(EntriesOf(T3Heads, T3Values), 3)
                 [] U = "d"  -> SectionsUpTo(EntriesOf(DHeads, DValues), 2)
                 [] U = "s1" -> SevSections(1)
                 [] U = "s2" -> SevSections(2)
                 [] U = "s3" -> SevSections(3)

NoDefaults == <<>>
ModdDefault == (Modd :> D)
PreModx == {Modx}
PreModd == {Modd}
NoBug == {}
BugKeepBits == {"keepbits"}
BugNoReset == {"noreset"}
BugNoHook == {"nohook"}

ASSUME SyntaxAgrees

(* one complete behaviour per explored (re)load transition; the history is hidden by the VIEW *)
DestNum(d) == CASE d = A -> 1 [] d = B -> 2 [] OTHER -> 3
RECURSIVE SumSeq(_, _)
SumSeq(s, i) == IF i > Len(s) THEN 0 ELSE s[i] + SumSeq(s, i + 1)
EntrySum(x) == SumSeq(x.name, 1) * 7 + (IF x.kind = "s" THEN 3 ELSE 11) + SumSeq([j \in DOMAIN x.dests |-> (j + 1) * DestNum(x.dests[j])], 1) * 13
EventSum(ev) == IF ev.e = "load" THEN 1 + SumSeq([j \in DOMAIN ev.sec |-> (j + 2) * EntrySum(ev.sec[j])], 1)
                ELSE IF ev.e = "nosec" THEN 5 ELSE 9
Checksum(h) == SumSeq([i \in DOMAIN h |-> (2 * i + 1) * EventSum(h[i])], 1)

EmitBehaviour ==
    \/ hist' = hist
    \/ (SampleK > 1 /\ Checksum(hist') % SampleK # SampleR)
    \/ PrintT("@@E" \o ToJson(hist'))
=============================================================================
