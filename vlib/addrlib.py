"""Shared machinery of checks C12 and C13 (addresses): run harness/h_addr.c on the rebuilt code,
let TLC validate the ndjson trace against spec/AddrTrace.tla (Addr.tla is the oracle), and turn
TLC's per-line verdicts into VIOLATION / DRIFT / machinery errors.

Python only moves bytes here: it starts processes, hands TLC the trace, reads the names of the
conjuncts TLC found false ("@@V" lines) and re-runs a failing case on a fresh process.
"""
import concurrent.futures
import hashlib
import json
import os
import re
import subprocess

from . import core
from . import tlc as _tlc

DEFAULTS = {"DOM": "pat", "NC": 3, "CHUNK": 0, "NCHUNK": 1, "COUNT": 0, "FULL": False, "MAXLEN": 0, "ALPHA": "A10"}
ALPHABETS = {"A10": "019af:./* ", "A6": "1a:./*", "A3": "1:.", "A2": "1:"}
FAMILIES = ["p6", "p4", "c6", "s6", "w6", "c4", "s4", "w4", "w0", "xo", "xg", "x2", "xl", "xw", "xc", "xd", "xs", "xm"]


def str_count(k, maxlen):
    return sum(k ** i for i in range(maxlen + 1))


def hexaddr(a):
    return ":".join("%x" % g for g in a)


def text(codes):
    return "".join(chr(c) if 32 <= c < 127 else "\\x%02x" % c for c in codes)


class Job:
    def __init__(self, label, hargs, consts, stdin=None, keep=False):
        self.label = label
        self.hargs = [str(x) for x in hargs]
        self.consts = dict(DEFAULTS)
        self.consts.update(consts)
        self.stdin = stdin          # list of lines for "h_addr lines", or None
        self.keep = keep

    def describe(self):
        return {"hargs": self.hargs, "consts": self.consts, "stdin": self.stdin}


class Result:
    def __init__(self, job):
        self.job = job
        self.trace = None
        self.rc = None
        self.ubsan = set()
        self.asan = ""
        self.crash_case = ""
        self.vlines = []            # [(line number, [names])]
        self.summary = None
        self.ncases = 0
        self.stats = {}
        self.failed_records = {}    # line number -> parsed trace record
        self.tlc_wall = 0.0


class Runner:
    def __init__(self, ctx, own):
        self.ctx = ctx
        self.own = own              # "C12_" or "C13_"
        self.dir = os.path.join(ctx.scratch, "addr")
        os.makedirs(self.dir, exist_ok=True)
        self.harness = ctx.build.harness("h_addr")
        if not os.path.exists(self.harness):
            raise core.MachineryError("harness h_addr was not built")
        self.distinct = set()
        self.other_prop = {}
        self.machinery = []
        self.n_valid_lines = 0

    # -- plumbing ------------------------------------------------------------------
    def _cfg(self, consts):
        def lit(v):
            if isinstance(v, bool):
                return "TRUE" if v else "FALSE"
            if isinstance(v, int):
                return str(v)
            return '"%s"' % v
        body = "CONSTANTS\n  Bug = {}\n" + "".join("  %s = %s\n" % (k, lit(consts[k])) for k in sorted(consts)) \
               + "SPECIFICATION Spec\n"
        name = "t-" + hashlib.sha1(body.encode()).hexdigest()[:12] + ".cfg"
        path = os.path.join(self.dir, name)
        if not os.path.exists(path):
            tmp = path + ".%d.tmp" % os.getpid()
            with open(tmp, "w") as f:
                f.write(body)
            os.replace(tmp, path)
        return path

    def run_job(self, job):
        res = Result(job)
        safe = re.sub(r"[^A-Za-z0-9_.-]", "_", job.label)
        res.trace = os.path.join(self.dir, safe + ".nd")
        errp = os.path.join(self.dir, safe + ".err")
        inp = None
        if job.stdin is not None:
            inp = os.path.join(self.dir, safe + ".in")
            with open(inp, "w") as f:
                f.write("".join(l + "\n" for l in job.stdin))
        with open(res.trace, "w") as fo, open(errp, "w") as fe:
            fi = open(inp) if inp else subprocess.DEVNULL
            try:
                p = subprocess.run(["timeout", "-s", "KILL", "400", self.harness] + job.hargs, stdin=fi, stdout=fo, stderr=fe)
            finally:
                if inp:
                    fi.close()
        res.rc = p.returncode
        # a killed harness may leave a partial last line: keep whole lines only
        with open(res.trace, "rb+") as f:
            f.seek(0, 2)
            size = f.tell()
            if size:
                back = min(size, 1 << 20)
                f.seek(size - back)
                tail = f.read(back)
                if not tail.endswith(b"\n"):
                    f.truncate(size - back + tail.rfind(b"\n") + 1)
        with open(errp, errors="replace") as f:
            err = f.read(400000)
        for line in err.splitlines():
            if "runtime error:" in line:
                res.ubsan.add(re.sub(r"^.*?/(modules|src)/", r"\1/", line.strip()))
            elif line.startswith("H_ADDR-CASE:"):
                res.crash_case = line[len("H_ADDR-CASE:"):].strip()
        if "AddressSanitizer" in err or "LeakSanitizer" in err:
            i = err.find("==ERROR")
            res.asan = err[i if i >= 0 else 0:][:1500]
        if res.rc in (124, 137, -9):
            res.asan = "harness did not finish within 400 s (killed); last case: %s" % res.crash_case
        if res.rc not in (0,) and not res.asan and res.rc != 2:
            res.asan = "harness exited with status %d\n%s" % (res.rc, err[-800:])
        if res.rc == 2:
            raise core.MachineryError("h_addr usage error: %s" % " ".join(job.hargs))
        self.validate(res)
        self._scan(res)
        if not res.vlines and not res.asan and not job.keep and not os.environ.get("VERIF_KEEP"):
            for pth in (res.trace, errp, inp):
                if pth and os.path.exists(pth):
                    os.unlink(pth)
        return res

    def validate(self, res):
        """TLC validates res.trace against spec/AddrTrace.tla; fills res.vlines and res.summary."""
        job = res.job
        r = self.ctx.tlc("AddrTrace", self._cfg(job.consts), workers=1, timeout=1500, env={"TRACE": res.trace},
                         heap="3g", java_opts=["-XX:ParallelGCThreads=2"])
        res.tlc_wall = r.wall_s
        if r.violated:
            raise core.MachineryError("AddrTrace run failed (%s) on %s:\n%s" % (r.violated, job.label, r.violation_text[:1500]))
        res.vlines = []
        res.summary = None
        for line in r.printed:
            s = _tlc.unquote_printed(line)
            if s.startswith("@@V"):
                d = json.loads(s[3:])
                res.vlines.append((d["l"], list(d["f"])))
            elif s.startswith("@@S"):
                res.summary = json.loads(s[3:])
        if res.summary is None:
            raise core.MachineryError("AddrTrace did not finish on %s:\n%s" % (job.label, r.output[-1500:]))
        return res

    def _scan(self, res):
        """Counts for the evidence (cases, distinct non-trivial cases, samples) and the records of failing lines."""
        want = {l for l, _ in res.vlines}
        dom = res.job.consts["DOM"]
        n = 0
        distinct = set()
        sample = None
        with open(res.trace) as f:
            for ln, line in enumerate(f, 1):
                if ln in want:
                    try:
                        res.failed_records[ln] = json.loads(line)
                    except ValueError:
                        res.failed_records[ln] = {"e": "garbled", "raw": line[:200]}
                if line.startswith('{"e":"end"'):
                    try:
                        n = json.loads(line).get("n", 0)
                    except ValueError:
                        pass
                    continue
                if dom in ("mask", "maskr"):
                    if sample is None and ln > 3:
                        sample = line
                    continue
                if line.startswith('{"e":"blk"'):
                    continue
                # cheap syntactic projections, no full parse for the bulk
                if dom in ("pat", "v4", "edge", "rnd"):
                    i = line.find('"t":[')
                    j = line.find("]", i)
                    t = line[i + 5:j]
                    if "58,58" in t or ",46," in t:
                        a = line.find('"a":[')
                        distinct.add(line[a + 5:line.find("]", a)])
                        if sample is None and ln % 97 == 3:
                            sample = line
                else:
                    i = line.find('"s":[')
                    distinct.add(line[i + 5:line.find("]", i)])
                    if sample is None and ln % 97 == 3:
                        sample = line
        res.ncases = n
        res.stats = {"distinct": distinct, "sample": sample}

    def run_all(self, jobs, workers=14):
        out = []
        with concurrent.futures.ThreadPoolExecutor(max_workers=workers) as ex:
            for r in ex.map(self.run_job, jobs):
                out.append(r)
        return out

    # -- verdicts --------------------------------------------------------------------
    def _confirm_job(self, res, ln, rec):
        """The single failing case as a job of its own (fresh process)."""
        e = rec.get("e")
        tag = "%s-l%d" % (res.job.label, ln)
        if e == "addr":
            return Job("re-" + tag, ["addr"] + rec["a"], {"DOM": "rnd", "COUNT": 1}, keep=True)
        if e in ("mask", "maskr"):
            return Job("re-" + tag, ["mask1"] + rec["a"] + rec["m"], {"DOM": "maskr", "COUNT": 1}, keep=True)
        if e == "form":
            g = res.summary["lo"] + ln - 1
            return Job("re-" + tag, ["lines"], {"DOM": "form", "NCHUNK": 0, "CHUNK": g, "COUNT": g},
                       stdin=["form %s %d %s" % (rec["fam"], rec["g"], " ".join(map(str, rec["s"])))], keep=True)
        if e in ("str", "mut"):
            return Job("re-" + tag, ["lines"], {"DOM": "mut", "COUNT": 1},
                       stdin=["mut - 0 %s" % " ".join(map(str, rec["s"]))], keep=True)
        return None

    @staticmethod
    def _signature(rec):
        e = rec.get("e")
        if e == "addr":
            return "ntop " + hexaddr(rec["a"])
        if e in ("mask", "maskr"):
            return "mask a=%s m=%s" % (hexaddr(rec["a"]), hexaddr(rec["m"]))
        if e == "form":
            return "pton form %s '%s'" % (rec["fam"], text(rec["s"]))
        if e in ("str", "mut"):
            return "pton '%s'" % text(rec["s"])
        return "line " + json.dumps(rec)[:120]

    @staticmethod
    def _what(rec, names):
        e = rec.get("e")
        if e == "addr":
            return ("irc_ntop(%s) = '%s' (returned %d); irc_pton of that text returned %d -> %s; inet_pton family %d -> %s; "
                    "printed again '%s'; failing: %s" % (hexaddr(rec["a"]), text(rec["t"]), rec["n"], rec["pr"], hexaddr(rec["pa"]),
                                                        rec["sf"], hexaddr(rec["sa"]), text(rec["t2"]), ",".join(names)))
        if e in ("mask", "maskr"):
            r = rec["r"]
            first0 = next((i for i, v in enumerate(r) if v == 0), 129)
            return "irc_check_mask(%s, %s, n) succeeds for n < %d (results %s...); failing: %s" % (
                hexaddr(rec["a"]), hexaddr(rec["m"]), first0, "".join(str(min(v, 9)) for v in r[:first0 + 3]), ",".join(names))
        if e in ("form", "str", "mut"):
            extra = ""
            if rec.get("pl") == 1:
                extra = "; printed '%s', parsed again %d -> %s, printed '%s'" % (text(rec["t"]), rec["qr"], hexaddr(rec["qa"]), text(rec["t2"]))
            return ("irc_pton('%s') returned %s for (bits,trailing) = (NULL,0),(NULL,1),(&b,0),(&b,1); addr %s / with bits %s, "
                    "bits %s / %s; inet_pton family %d -> %s%s; failing: %s" % (text(rec["s"]), rec["r"], hexaddr(rec["a0"]), hexaddr(rec["a2"]),
                                                                           rec["b2"], rec["b3"], rec["sf"], hexaddr(rec["sa"]), extra, ",".join(names)))
        return "trace line %s; failing: %s" % (json.dumps(rec)[:200], ",".join(names))

    def process(self, results, confirm=True, max_confirm=6):
        """Account the results in the evidence and report.  Returns the number of violations reported."""
        ctx = self.ctx
        reported = 0
        confirmed_per = {}
        drift_seen = 0
        for res in results:
            ctx.cov["evaluations"] += res.ncases
            self.distinct |= res.stats.get("distinct", set())
            if res.stats.get("sample"):
                try:
                    ctx.sample(json.loads(res.stats["sample"]))
                except ValueError:
                    pass
            for u in res.ubsan:
                ctx.cov.setdefault("ubsan_reports_not_memory_errors", [])
                if u not in ctx.cov["ubsan_reports_not_memory_errors"] and len(ctx.cov["ubsan_reports_not_memory_errors"]) < 20:
                    ctx.cov["ubsan_reports_not_memory_errors"].append(u)
            bad_lines = {l for l, _ in res.vlines}
            self.n_valid_lines += max(0, res.summary["lines"] - len(bad_lines))
            crashed = bool(res.asan) or not res.summary.get("complete")
            if crashed:
                # the step did not complete: run the same job once more on a fresh process
                again = self.run_job(Job("re-" + res.job.label, res.job.hargs, res.job.consts, res.job.stdin, keep=True)) if confirm else res
                if again.asan or not again.summary.get("complete"):
                    sig = "crash " + (again.crash_case or res.crash_case or res.job.label)
                    sig = re.sub(r"^(crash \w+) \d+ ", r"\1 ", sig)
                    if ctx.violation("the harness step did not complete (sanitizer abort / truncated trace): %s\n%s"
                                     % (again.crash_case or res.crash_case, (again.asan or res.asan)[:900]),
                                     self.own + "memory", sig, res.job.describe()) is not None:
                        reported += 1
                else:
                    self.machinery.append("harness run %s was truncated once but not when repeated" % res.job.label)
                continue
            for ln, names in res.vlines:
                rec = res.failed_records.get(ln, {})
                own = [n for n in names if n.startswith(self.own)]
                other = [n for n in names if n.startswith(("C12_", "C13_")) and n not in own]
                drift = [n for n in names if n.startswith("Drift_")]
                mach = [n for n in names if n.startswith(("Bind_", "Seq_", "Sane_"))]
                for n in other:
                    self.other_prop[n] = self.other_prop.get(n, 0) + 1
                if mach:
                    self.machinery.append("%s line %d: %s (%s)" % (res.job.label, ln, ",".join(mach), self._signature(rec)))
                if drift and not own and drift_seen < 5:
                    drift_seen += 1
                    ctx.drift("%s: real result differs from the transcribed algorithm (%s)" % (self._signature(rec), ",".join(drift)),
                              self._what(rec, drift))
                if not own:
                    continue
                key = tuple(sorted(own))
                if confirmed_per.get(key, 0) >= max_confirm:
                    continue
                confirmed_per[key] = confirmed_per.get(key, 0) + 1
                cj = self._confirm_job(res, ln, rec) if confirm else None
                still = own
                rec2 = rec
                if cj is not None:
                    again = self.run_job(cj)
                    still = sorted({n for _, ns in again.vlines for n in ns if n.startswith(self.own)})
                    if again.failed_records:
                        rec2 = list(again.failed_records.values())[0]
                    if not still:
                        self.machinery.append("%s line %d failed %s once but not when repeated on a fresh process"
                                              % (res.job.label, ln, ",".join(own)))
                        continue
                replay = cj.describe() if cj is not None else res.job.describe()
                if ctx.violation(self._what(rec2, still), "+".join(still), self._signature(rec2), replay) is not None:
                    reported += 1
        return reported

    def check_tiling(self, results, prefix, total):
        """Bookkeeping: the chunks of an indexed domain that were launched cover 0..total-1 without gaps
        (each chunk's own bounds are computed and enforced by TLC; this only checks that none was left out)."""
        spans = sorted((r.summary["lo"], r.summary["hi"]) for r in results if r.job.label.startswith(prefix) and r.summary)
        nxt = 0
        for lo, hi in spans:
            if lo != nxt:
                break
            nxt = hi + 1
        if nxt != total:
            self.machinery.append("chunks of %s cover 0..%d, expected 0..%d" % (prefix, nxt - 1, total - 1))

    def finish(self):
        ctx = self.ctx
        ctx.cov["distinct_nontrivial"] = len(self.distinct)
        ctx.cov["traces_validated_against_impl"] = self.n_valid_lines
        for n, k in sorted(self.other_prop.items()):
            ctx.note("%d line(s) failed %s (belongs to the other address property; reported by its own check)" % (k, n))
        if self.machinery and not ctx.violations:
            raise core.MachineryError("trace does not match the expected enumeration / oracle sanity failed:\n  "
                                      + "\n  ".join(self.machinery[:10]))
        for m in self.machinery[:10]:
            ctx.note("machinery: " + m)


def replay_job(ctx, own, body):
    """Re-run the job recorded in a replay file and report what TLC says now."""
    rp = body.get("replay", {})
    run = Runner(ctx, own)
    job = Job("replay", rp["hargs"], rp["consts"], rp.get("stdin"), keep=True)
    res = run.run_job(job)
    n = run.process([res], confirm=False)
    run.finish()
    ctx.note("replay: %d violation(s) reproduced" % n)
    return n


def selftest(ctx):
    """Anti-vacuity of the trace validation: corrupting one field of a recorded trace, deleting a line or
    truncating the trace must make TLC object (and the untouched trace must be accepted).
    Run with:  python3 -c "from vlib import addrlib; addrlib.selftest_main()"   from /verif."""
    run = Runner(ctx, "C12_")
    problems = []

    def check(label, res, lines, expect):
        path = os.path.join(run.dir, label + ".nd")
        with open(path, "w") as f:
            f.write("".join(l + "\n" for l in lines))
        r2 = Result(res.job)
        r2.trace = path
        run.validate(r2)
        names = {n for _, ns in r2.vlines for n in ns}
        ok = (expect is None and not names and r2.summary["complete"]) or \
             (expect == "incomplete" and not r2.summary["complete"]) or (expect in names)
        print("  selftest %-28s -> %s %s" % (label, sorted(names) or r2.summary, "ok" if ok else "NOT DETECTED"), flush=True)
        if not ok:
            problems.append(label)

    def mod(lines, idx, fn):
        d = json.loads(lines[idx])
        fn(d)
        return lines[:idx] + [json.dumps(d, separators=(",", ":"))] + lines[idx + 1:]

    a = run.run_job(Job("st-pat", ["pat", 3, 0, 999], {"DOM": "pat", "NC": 3, "NCHUNK": 0, "CHUNK": 0, "COUNT": 999}, keep=True))
    L = open(a.trace).read().splitlines()
    check("pat-untouched", a, L, None)
    check("pat-text-char-changed", a, mod(L, 499, lambda d: d["t"].__setitem__(-1, 55 if d["t"][-1] != 55 else 56)), "C12_denotes")
    check("pat-own-parse-changed", a, mod(L, 99, lambda d: d["pa"].__setitem__(7, d["pa"][7] ^ 1)), "C12_own")
    check("pat-std-parse-changed", a, mod(L, 199, lambda d: d["sa"].__setitem__(0, d["sa"][0] ^ 1)), "C12_std")
    check("pat-reprint-changed", a, mod(L, 299, lambda d: d["t2"].append(48)), "C12_idem")
    check("pat-leading-colon", a, mod(L, 0, lambda d: d["t"].__delitem__(0)), "C12_nocolon")
    check("pat-line-deleted", a, L[:299] + L[300:], "Bind_addr")
    check("pat-truncated", a, L[:-10], "incomplete")
    m = run.run_job(Job("st-mask", ["mask", 0, 1, 0, 383], {"DOM": "mask", "FULL": False}, keep=True))
    L = open(m.trace).read().splitlines()
    check("mask-untouched", m, L, None)
    check("mask-result-flipped", m, mod(L, 49, lambda d: d["r"].__setitem__(d["r"].index(0), 1)), "C13_prefix")
    check("mask-pair-changed", m, mod(L, 59, lambda d: d["m"].__setitem__(0, d["m"][0] ^ 1)), "Bind_mask")
    alpha = ALPHABETS["A10"]
    s = run.run_job(Job("st-str", ["strs", alpha, 4, 0, str_count(10, 4) - 1], {"DOM": "str", "ALPHA": "A10", "MAXLEN": 4}, keep=True))
    L = open(s.trace).read().splitlines()
    strs_ = [k for k, l in enumerate(L) if l.startswith('{"e":"str"')]
    plain = [k for k, l in enumerate(L) if '"pl":1' in l and '"sf":6' in l]
    check("str-untouched", s, L, None)
    check("str-line-deleted", s, L[:strs_[100]] + L[strs_[100] + 1:], "Seq_blk")
    check("str-return-beyond-end", s, mod(L, strs_[50], lambda d: d["r"].__setitem__(1, len(d["s"]) + 1)), "C13_bounded")
    check("str-parsers-disagree", s, mod(L, plain[3], lambda d: d["a0"].__setitem__(7, d["a0"][7] ^ 1)), "C13_agree")
    check("str-not-idempotent", s, mod(L, plain[2], lambda d: d["t2"].append(58)), "C12_idem_s")
    if problems:
        raise core.MachineryError("trace corruption not detected: %s" % ", ".join(problems))
    return True


def selftest_main():
    ctx = core.Ctx("C12", "quick", 1, "model_checking")
    try:
        selftest(ctx)
        print("addr trace-corruption selftest ok")
    finally:
        ctx.cleanup()
