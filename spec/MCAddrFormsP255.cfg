CONSTANTS
  EMIT = FALSE
  NFAM = 18
  Bug = {"P255"}
INIT Init
NEXT Next
INVARIANTS Emit DocSane DenotesNet RejectNotPlain AlgoDoc AlgoPlain
