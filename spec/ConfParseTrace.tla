---------------------------- MODULE ConfParseTrace ----------------------------
(***************************************************************************)
(* Trace validation for the configuration file reader (the oracle of C14   *)
(* and C16).  The trace (ndjson, IOEnv.TRACE) is what harness/h_confparse  *)
(* printed while the REAL conf_read() loaded files:                        *)
(*                                                                         *)
(*  {"e":"gen","id",k,"t":tree,"l":tape,"typed":[..]}   only for C16 cases:*)
(*        the abstract tree and the layout the next file was rendered from *)
(*        (copied from the output of the MCConfSyntax run that rendered it)*)
(*  {"e":"begin","id",k,"b":[file bytes as loaded],"before":DUMP}          *)
(*  {"e":"end","id",k,"rc","after":DUMP,"nhooks","hooks":[..]}             *)
(*  {"e":"died",..}     the process loading the file crashed / hung        *)
(*                                                                         *)
(* DUMP = [P, c: nodes]; node = [n, k, P (present), S (specified), ..] as  *)
(* described in the harness.  Strings are byte sequences.                  *)
(*                                                                         *)
(* Every line is judged on its own (one initial state per line, so that a  *)
(* rejection is a one-state counterexample naming the line); the lines a   *)
(* judgement needs (the "begin" before an "end", the "gen" before that)    *)
(* are looked up by position.  TLC must report exactly Len(TraceLog)       *)
(* distinct states - the driver checks that.                               *)
(*                                                                         *)
(* Conjuncts named C14_* / C16_* are the contract; a violation of one of   *)
(* them on a trace of the real code is a VIOLATION.  Conjuncts named Gen_* *)
(* check the generator (that the bytes loaded are the rendering of the     *)
(* tree the line claims): their failure is a machinery error.              *)
(***************************************************************************)
EXTENDS ConfSyntax, Integers, Json, IOUtils

TraceLog == ndJsonDeserialize(IOEnv.TRACE)

VARIABLE l
Init == l \in 1..Len(TraceLog)
Next == UNCHANGED l
Spec == Init /\ [][Next]_l

Line(i) == TraceLog[i]
E == Line(l)
IsEnd == E.e = "end"
B == Line(l - 1)                 \* the "begin" of an "end" line (C14_Total checks that it is one)
HasGen == IsEnd /\ l > 2 /\ Line(l - 2).e = "gen"
G == Line(l - 2)

-------------------------------------------------------------------------------
(* C14, totality: "reading any byte sequence ... terminates without memory errors and
   either succeeds or reports an error": every begin has its end in the same process. *)
C14_Total ==
    CASE E.e = "gen" -> /\ l + 2 <= Len(TraceLog)
                        /\ Line(l + 1).e = "begin" /\ Line(l + 1).id = E.id /\ Line(l + 1).k = E.k
                        /\ Line(l + 2).e = "end"
      [] E.e = "begin" -> /\ l + 1 <= Len(TraceLog)
                          /\ Line(l + 1).e = "end" /\ Line(l + 1).id = E.id /\ Line(l + 1).k = E.k
      [] E.e = "end" -> l > 1 /\ B.e = "begin" /\ B.id = E.id /\ B.k = E.k /\ E.rc \in Int
      [] E.e = "dump" -> TRUE
      [] OTHER -> FALSE          \* "died", "harness-error", anything unknown

Paired == IsEnd /\ l > 1 /\ B.e = "begin"

-------------------------------------------------------------------------------
(* Dumps *)
Null == <<-1>>                               \* a NULL string (no byte string equals it)
OptVal(o) == IF Len(o) = 1 THEN o[1] ELSE Null

NodeVal(nd) ==
    CASE nd.k = "s" -> OptVal(nd.v)
      [] nd.k = "p" -> <<OptVal(nd.h), OptVal(nd.s)>>
      [] nd.k = "l" -> nd.v
      [] nd.k = "o" -> <<>>

RECURSIVE DFlat(_, _, _)
(* all nodes below an object, depth first: [key, nd, pp (parent is present)] *)
DFlat(nodes, path, pp) ==
    IF nodes = <<>> THEN <<>>
    ELSE LET nd == Head(nodes)
             here == [key |-> <<path, FoldStr(nd.n), nd.k>>, nd |-> nd, pp |-> pp]
             below == IF nd.k = "o" THEN DFlat(nd.c, Append(path, FoldStr(nd.n)), nd.P = 1) ELSE <<>>
         IN <<here>> \o below \o DFlat(Tail(nodes), path, pp)

Nodes(dump) == DFlat(dump.c, <<>>, dump.P = 1)

(* the configuration as a consumer sees it: the present nodes and their values *)
PresentFacts(dump) ==
    LET f == Nodes(dump)
        I == { i \in DOMAIN f : f[i].nd.P = 1 }
    IN [ key \in { f[i].key : i \in I } |-> NodeVal(f[CHOOSE i \in I : f[i].key = key].nd) ]

RECURSIVE PresentNames(_)
PresentNames(nodes) ==
    IF nodes = <<>> THEN {}
    ELSE LET nd == Head(nodes)
         IN (IF nd.P = 1 THEN {nd.n} ELSE {})
            \cup (IF nd.k = "o" THEN PresentNames(nd.c) ELSE {}) \cup PresentNames(Tail(nodes))

AtDefault(nd) ==
    CASE nd.k = "s" -> nd.v = nd.d
      [] nd.k = "p" -> nd.h = nd.dh /\ nd.s = nd.ds
      [] nd.k = "l" -> nd.v = nd.d
      [] nd.k = "o" -> TRUE

(* A state a successful load may leave behind. *)
WellFormed(dump) ==
    LET f == Nodes(dump) IN
    /\ dump.P = 1
    /\ \A i, j \in DOMAIN f : f[i].key = f[j].key => i = j           \* one node per (name, kind) in an object
    /\ \A i \in DOMAIN f :
          /\ f[i].nd.P = 1 \/ f[i].nd.S = 1                           \* leftovers nobody registered are gone
          /\ f[i].nd.P = 1 => f[i].pp                                 \* a node of the file lies in an object of the file
          /\ f[i].nd.P = 0 => AtDefault(f[i].nd)                      \* not in the file: the registered default
          /\ f[i].nd.k = "l" => \A x \in DOMAIN f[i].nd.v : IsStr(f[i].nd.v[x])

(* registered nodes stay registered *)
Retained(before, after) ==
    LET fb == Nodes(before)
        fa == Nodes(after)
    IN \A i \in DOMAIN fb : fb[i].nd.S = 1 => \E j \in DOMAIN fa : fa[j].key = fb[i].key /\ fa[j].nd.S = 1

-------------------------------------------------------------------------------
(* C14: "When it reports an error, the live configuration - every registered value, list,
   host/service pair and the set of present nodes - is exactly what it was before, and no
   change notification is delivered."                                                      *)
C14_Atomic == Paired /\ E.rc # 0 => E.after = B.before
C14_NoNotify == Paired /\ E.rc # 0 => E.nhooks = 0 /\ E.hooks = <<>>
(* "either succeeds ..": after a success the live tree is a proper configuration *)
C14_PostState == Paired /\ E.rc = 0 => WellFormed(E.after) /\ Retained(B.before, E.after)

-------------------------------------------------------------------------------
(* C16 *)
Gen_Render == HasGen => IsEnts(G.t, 2) /\ G.t # <<>> /\ B.b = Render(G.t, G.l)

(* "Any configuration tree written in the documented syntax ... is read back" *)
C16_Accepted == HasGen => E.rc = 0
(* ".. as exactly that tree: strings byte-for-byte, list items in order, later duplicates
   overriding earlier ones and repeated objects merging" *)
C16_ReadBack == HasGen /\ E.rc = 0 => PresentFacts(E.after) = Meaning(G.t)
(* names are kept as written (one of the spellings used in the file) *)
C16_Spelling == HasGen /\ E.rc = 0 => PresentNames(E.after.c) \subseteq NamesIn(G.t)

(* Typed settings.  G.typed: << [p |-> path (names), n |-> name, st, good, c |-> components, bi] >> *)
TKey(ty) == <<[i \in DOMAIN ty.p |-> FoldStr(ty.p[i])], FoldStr(ty.n), "s">>
NodeAt(dump, key) == LET f == Nodes(dump) IN f[CHOOSE i \in DOMAIN f : f[i].key = key].nd
HasNode(dump, key) == LET f == Nodes(dump) IN \E i \in DOMAIN f : f[i].key = key

Gen_Typed ==
    HasGen => \A x \in DOMAIN G.typed :
        LET ty == G.typed[x]
            m == Meaning(G.t)
        IN /\ TKey(ty) \in DOMAIN m
           /\ ty.st \in 1..5
           /\ IF ty.good = 2
              THEN m[TKey(ty)] = WideText(ty.wc) /\ InLang(ty.st, m[TKey(ty)]) /\ DLe(WideValue(ty.st, ty.wc), UIntMax)
              ELSE IF ty.good = 1
              THEN m[TKey(ty)] = TypedText(ty.st, ty.c) /\ InLang(ty.st, m[TKey(ty)])
              ELSE ty.bi \in DOMAIN BadPool[ty.st] /\ m[TKey(ty)] = BadPool[ty.st][ty.bi] /\ ~InLang(ty.st, m[TKey(ty)])

(* "Typed settings deliver the value written (booleans by keyword, integers, intervals and
   volumes as the sum of their unit components)" *)
C16_TypedGood ==
    HasGen /\ E.rc = 0 => \A x \in DOMAIN G.typed :
        LET ty == G.typed[x] IN
        /\ ty.good = 1 =>
            /\ HasNode(E.after, TKey(ty))
            /\ LET nd == NodeAt(E.after, TKey(ty))
               IN nd.st = ty.st /\ nd.pv = TypedValue(ty.st, ty.c) /\ nd.pv = Denote(ty.st, TypedText(ty.st, ty.c))
        \* wide values (2^31 .. 2^32 - 1): the decimal digits of the value delivered
        /\ ty.good = 2 =>
            /\ HasNode(E.after, TKey(ty))
            /\ LET nd == NodeAt(E.after, TKey(ty))
               IN nd.st = ty.st /\ nd.pvd = WideValue(ty.st, ty.wc) /\ nd.pvd = WideDenote(ty.st, WideText(ty.wc))

(* "and an unparsable typed value is rejected leaving the previous value in force" *)
C16_TypedBad ==
    HasGen /\ E.rc = 0 => \A x \in DOMAIN G.typed :
        LET ty == G.typed[x] IN
        ty.good = 0 =>
            /\ HasNode(E.after, TKey(ty)) /\ HasNode(B.before, TKey(ty))
            /\ NodeAt(E.after, TKey(ty)).pv = NodeAt(B.before, TKey(ty)).pv
            /\ NodeAt(E.after, TKey(ty)).pvd = NodeAt(B.before, TKey(ty)).pvd

-------------------------------------------------------------------------------
(* Not part of any contract (reported as DRIFT only): on inputs that were not rendered from
   a tree - the mutated and arbitrary byte strings of C14 - whenever the reader of ConfSyntax
   accepts the bytes, the real parser accepts them too and delivers the same configuration.
   (Inputs of at most 400 bytes: the recursive reader is slow in TLC on very long inputs.)   *)
Drift_ParseAgrees ==
    Paired /\ ~HasGen /\ Len(B.b) <= 400 /\ (\A i \in DOMAIN B.b : B.b[i] # 0) =>
        LET p == ParseBytes(B.b)
        IN p.ok /\ p.ents # <<>> => E.rc = 0 /\ PresentFacts(E.after) = Meaning(p.ents)
=============================================================================
