\* thorough: one rule (name B2) with every subset of the five criteria over two or three patterns each (CIDR, IPv6 and
\* wildcard masks), class present or absent, trust_username on or off; clients: 3 values per attribute x every reply
\* state of the two services
CONSTANTS
  CBug <- Bug_none
  Names <- N_1
  AcctP <- Acct_2
  AddrP <- Addr_2
  UserP <- User_2
  HostP <- Host_2
  OkP <- Ok_2
  ClassP <- Class_1
  TrustP <- BoolSet
  MaxRules = 1
  MaxCrit = 5
  Svcs <- S_ld
  CAcct <- CAcct_3
  CAddr <- CAddr_3
  CIdent <- CIdent_3
  CHost <- CHost_3
  CUser <- CUser_2
  LoginSt <- Login_all
  DroneSt <- Drone_all
  EmitMod = 0
INIT Init
NEXT Next
ACTION_CONSTRAINT Emit
INVARIANT VecOrder
INVARIANT OrderIndep
INVARIANT VecIsConf
INVARIANT Unique
INVARIANT ImplClass
INVARIANT ImplUline
INVARIANT ImplExact
