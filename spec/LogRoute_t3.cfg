SPECIFICATION Spec
VIEW View
CONSTANTS
    Sections <- TheSections
    U = "t3"
    PreReg <- PreModx
    DefTarget <- NoDefaults
    Bug <- NoBug
    MaxReloads = 9
    WithEmit = TRUE
    SampleK = 1
    SampleR = 0
INVARIANTS TypeOK RoutingIsDeclarative RoutingIsContract EmitWrites RefcountsExact HooksInstalled TreeIsSection
ACTION_CONSTRAINT EmitBehaviour
