------------------------------- MODULE IAuth -------------------------------
(***************************************************************************)
(* Implementation-shaped specification (B) of the iauthd-c request engine: *)
(* modules/iauth_core.c (request table, acceptance gate, timeout),         *)
(* modules/iauth_xquery.c (service table, queries, replies, passwords).    *)
(*                                                                         *)
(* One action = the processing of one input line (or one firing of a       *)
(* request's timeout).  The action is a function of the event record, so   *)
(* the specification is deterministic: Step(e) has exactly one successor.  *)
(* Operators are named after the C functions they transcribe.              *)
(*                                                                         *)
(* Text values are carried as <<ref, len>> pairs: ref names a text the     *)
(* environment sent, len is how many of its characters are present (so the *)
(* truncation rules NICKLEN/USERLEN/HOSTLEN/REALLEN/ACCOUNTLEN/password    *)
(* 511 are part of the specification without TLC manipulating strings).    *)
(*                                                                         *)
(* Bug \subseteq {"D2","D3","D4","D15"} re-introduces defects that were    *)
(* repaired in the code (see DESIGN.md section 8); Bug = {} is the code.   *)
(***************************************************************************)
EXTENDS Integers, Sequences, FiniteSets, TLC

CONSTANTS
    Services,      \* sequence of [name |-> STRING, type |-> STRING] in configuration order (sorted by name)
    TimeoutOn,     \* BOOLEAN: iauth { timeout } configured (> 0)
    Bug            \* set of re-introduced defects

VARIABLES
    serial,        \* iauth_serial
    req,           \* function: client id -> request record (domain = ids with a live request)
    slots,         \* iauth_xquery_services: sequence of service records or NoSlot
    ev,            \* ghost: the event just processed
    out            \* ghost: the lines written to stdout by that step

bvars == <<serial, req, slots>>
vars  == <<serial, req, slots, ev, out>>

-----------------------------------------------------------------------------
(* Limits (modules/iauth.h) *)
NICKLEN == 30
USERLEN == 10
HOSTLEN == 63
REALLEN == 50
ACCOUNTLEN == 64
PASSLEN == 511

Nil == <<"", 0>>                       \* an empty C string
Min(a, b) == IF a < b THEN a ELSE b
Cut(t, n) == IF t[2] = 0 THEN Nil ELSE <<t[1], Min(t[2], n)>>   \* strncpy into a zeroed buffer of n+1

NoSlot == [name |-> "", type |-> "", configured |-> FALSE, used |-> FALSE, refs |-> 0]

TypeNames == {"login", "login-ipr", "dronecheck", "combined"}
LoginLike(t) == t \in {"login", "login-ipr", "combined"}

\* iauth_xquery_flags[type]
XFlags(t) == CASE t = "login"      -> {"pw"}
               [] t = "login-ipr"  -> {"host", "ident", "pw"}
               [] t = "dronecheck" -> {"host", "ident", "nick", "user"}
               [] t = "combined"   -> {"host", "ident", "nick", "user"}
               [] OTHER            -> {}

\* Which decision modules are loaded is part of the configuration.  iauth_xquery is the only stock module that declares
\* policies (A, R, U, W) and handles passwords, queries and replies; without it (core alone; iauth_class depends on it) the
\* banner has no policy line and only the host name result is required.  A service table consisting of the single marker
\* entry [name |-> "", type |-> "@noxquery"] stands for "iauth_xquery is not loaded" (an empty table = loaded, no services).
XQ == ~(Len(Services) = 1 /\ Services[1].type = "@noxquery")

\* iauth_flags as computed by calc_iauth_flags(): IAUTH_GOT_HOSTNAME always; user info with policy A; nick and ident with U
IauthFlags == IF XQ THEN {"host", "ident", "nick", "user"} ELSE {"host"}

HexDigit(n) == CASE n = 0 -> "0" [] n = 1 -> "1" [] n = 2 -> "2" [] n = 3 -> "3" [] n = 4 -> "4"
                 [] n = 5 -> "5" [] n = 6 -> "6" [] n = 7 -> "7" [] n = 8 -> "8" [] n = 9 -> "9"
                 [] n = 10 -> "a" [] n = 11 -> "b" [] n = 12 -> "c" [] n = 13 -> "d" [] n = 14 -> "e"
                 [] n = 15 -> "f"
RECURSIVE Hex(_)
\* (negative ids print as two's complement in the code; the model only needs a total, injective spelling for them)
Hex(n) == IF n < 0 THEN "-" \o Hex(0 - n) ELSE IF n < 16 THEN HexDigit(n) ELSE Hex(n \div 16) \o HexDigit(n % 16)
\* iauth_routing(): "%x_%x" of client id and serial
Routing(id, ser) == Hex(id) \o "_" \o Hex(ser)

-----------------------------------------------------------------------------
(* Request records *)
NewReq(id, ser, addr, port) ==
    [client |-> id, serial |-> ser, addr |-> addr, port |-> port,
     flags |-> {}, holds |-> 0, soft |-> 0,
     timer |-> IF TimeoutOn THEN "armed" ELSE "none", timedout |-> FALSE,
     hostname |-> Nil, cliuser |-> Nil, clitilde |-> FALSE, authuser |-> Nil, nick |-> Nil, real |-> Nil,
     account |-> Nil,
     \* struct iauth_xquery_client
     modes |-> {}, sent |-> {}, ref |-> {}, more |-> {}, ok |-> {}, password |-> Nil]

Live(id) == id \in DOMAIN req

InitSlots == IF ~XQ THEN << >> ELSE
             [n \in 1..Len(Services) |->
                 [name |-> Services[n].name, type |-> Services[n].type,
                  configured |-> Services[n].type \in TypeNames, used |-> TRUE, refs |-> 0]]

Init == /\ serial = 0
        /\ req = <<>>
        /\ slots = InitSlots
        /\ ev = [e |-> "init"]
        /\ out = <<>>

-----------------------------------------------------------------------------
(* Output lines (shapes shared with the trace records, Appendix B of DESIGN.md) *)
CliMsg(k, r) == [k |-> k, id |-> r.client, atext |-> "*", port |-> r.port]
MsgD(r)       == CliMsg("D", r) @@ [cls |-> "*"]
MsgR(r)       == CliMsg("R", r) @@ [acct |-> r.account, cls |-> "*"]
MsgKill(r, t) == CliMsg("k", r) @@ [text |-> t]
MsgSoft(r)    == CliMsg("d", r)
MsgChal(r, t) == CliMsg("C", r) @@ [text |-> t]
MsgMode(r, m) == CliMsg("M", r) @@ [modes |-> m]
Opers(t)      == [k |-> ">", text |-> t]

\* username as built by iauth_xquery_check(): ident, else ~-prefixed client name, cut to USERLEN
UserField(r) ==
    IF r.authuser # Nil THEN <<0, r.authuser[1], Min(r.authuser[2], USERLEN)>>
    ELSE IF r.cliuser # Nil /\ r.clitilde THEN <<0, r.cliuser[1], Min(r.cliuser[2], USERLEN)>>
    ELSE IF r.cliuser # Nil THEN <<1, r.cliuser[1], Min(r.cliuser[2], USERLEN - 1)>>
    ELSE <<0, "", 0>>
HostField(r) == IF r.hostname # Nil THEN r.hostname ELSE <<"@addr", 0>>

XCheckLine(r, s)  == [k |-> "X", svc |-> slots[s].name, tag |-> Routing(r.client, r.serial), q |-> "CHECK",
                      nick |-> r.nick, user |-> UserField(r), atext |-> "*", host |-> HostField(r), real |-> r.real]
XLoginLine(r, s)  == [k |-> "X", svc |-> slots[s].name, tag |-> Routing(r.client, r.serial), q |-> "LOGIN",
                      cred |-> r.password]
XLogin2Line(r, s) == [k |-> "X", svc |-> slots[s].name, tag |-> Routing(r.client, r.serial), q |-> "LOGIN2",
                      atext |-> "*", host |-> HostField(r), user |-> UserField(r), cred |-> r.password]
XMoreLine(r, s, raw) == [k |-> "X", svc |-> slots[s].name, tag |-> Routing(r.client, r.serial), q |-> "MORE",
                      raw |-> raw]

-----------------------------------------------------------------------------
(* iauth_check_request() -> <<request or "gone", lines>>.                                     *)
(* iauth_accept(): pre_registered hooks (class assignment, not modelled: cls = "*"),          *)
(* RESPONDED, R/D line, parse_registered(req, 0) removes the request.                          *)
Gone == [gone |-> TRUE]
IsGone(r) == "gone" \in DOMAIN r

SoftOK(r) == IF "D4" \in Bug THEN r.soft = 0 ELSE (r.soft = 0 \/ r.timedout)

CheckRequest(r) ==
    IF r.holds = 0 /\ IauthFlags \subseteq r.flags
    THEN IF SoftOK(r)
         THEN <<Gone, << IF r.account # Nil THEN MsgR(r) ELSE MsgD(r) >> >>
         ELSE IF "softdone" \notin r.flags
              THEN << [r EXCEPT !.flags = @ \cup {"softdone"}], << MsgSoft(r) >> >>
              ELSE << r, <<>> >>
    ELSE << r, <<>> >>

-----------------------------------------------------------------------------
(* iauth_xquery_check(req, flag): walks the service vector in slot order.                      *)
(* Returns <<request, slot table, lines>>.                                                     *)
RECURSIVE XCheckFrom(_, _, _, _, _)
XCheckFrom(r, sl, flag, s, acc) ==
    IF s > Len(sl) THEN <<r, sl, acc>>
    ELSE LET sv == sl[s]
             t == sv.type
             skip == \/ ~sv.used \/ ~sv.configured
                     \/ (s \in r.sent /\ (flag # "pw" \/ t = "dronecheck"))
                     \/ (t \in {"login", "login-ipr"} /\ r.password = Nil)
                     \/ ~(XFlags(t) \subseteq r.flags)
         IN IF skip THEN XCheckFrom(r, sl, flag, s + 1, acc)
            ELSE LET lines ==
                        (IF t \in {"dronecheck", "combined"} THEN << XCheckLine(r, s) >> ELSE <<>>)
                        \o (IF r.password = Nil THEN <<>>
                            ELSE IF t \in {"login", "combined"} THEN << XLoginLine(r, s) >>
                            ELSE IF t = "login-ipr" THEN << XLogin2Line(r, s) >>
                            ELSE <<>>)
                     r2 == [r EXCEPT !.soft = IF r.ref = {} THEN @ + 1 ELSE @,
                                     !.ref = @ \cup {s}, !.sent = @ \cup {s}]
                     sl2 == [sl EXCEPT ![s].refs = @ + 1]
                 IN XCheckFrom(r2, sl2, flag, s + 1, acc \o lines)
XCheck(r, flag) == IF XQ THEN XCheckFrom(r, slots, flag, 1, <<>>) ELSE <<r, slots, <<>> >>

\* End of a handler in iauth_core.c: module callbacks done, then iauth_check_request(req).
Finish(id, x) ==
    LET c == CheckRequest(x[1]) IN
    /\ req' = IF IsGone(c[1]) THEN [i \in DOMAIN req \ {id} |-> req[i]]
              ELSE [req EXCEPT ![id] = c[1]]
    /\ slots' = x[2]
    /\ out' = x[3] \o c[2]

\* Handler end without gate evaluation (only with Bug "D15")
FinishNoCheck(id, x) ==
    /\ req' = [req EXCEPT ![id] = x[1]]
    /\ slots' = x[2]
    /\ out' = x[3]

Ignore == /\ UNCHANGED bvars /\ out' = <<>>

-----------------------------------------------------------------------------
(* Input lines.  Every handler is guarded the way iauth_read() does it: a line for an id      *)
(* without a request is dropped before dispatch (except C and id -1).                          *)

\* "<id> C <remote ip> <remote port> <local ip> <local port>": parse_new_client()
Announce(e) ==
    LET r == NewReq(e.id, serial + 1, e.addr, e.port) IN
    /\ serial' = serial + 1
    /\ req' = [i \in DOMAIN req \cup {e.id} |-> IF i = e.id THEN r ELSE req[i]]
       \* set_insert() on an equal key disposes the replaced request
    /\ UNCHANGED slots
    /\ out' = <<>>

\* "<id> N <hostname>": parse_hostname()
Hostname(e) ==
    IF ~Live(e.id) \/ req[e.id].hostname # Nil THEN Ignore
    ELSE LET r1 == [req[e.id] EXCEPT !.hostname = Cut(e.host, HOSTLEN), !.flags = @ \cup {"host"}]
         IN Finish(e.id, XCheck(r1, "host")) /\ UNCHANGED serial

\* "<id> d": parse_no_hostname()
NoHostname(e) ==
    IF ~Live(e.id) THEN Ignore
    ELSE LET r1 == [req[e.id] EXCEPT !.flags = @ \cup {"host"}]
         IN Finish(e.id, XCheck(r1, "host")) /\ UNCHANGED serial

\* "<id> u <ident>" / "<id> u": parse_ident()
Ident(e) ==
    IF ~Live(e.id) THEN Ignore
    ELSE LET r0 == req[e.id]
             r1 == IF e.e = "u"
                   THEN [r0 EXCEPT !.authuser = Cut(e.ident, USERLEN), !.flags = @ \cup {"ident"}]
                   ELSE IF r0.cliuser # Nil THEN [r0 EXCEPT !.flags = @ \cup {"ident"}]
                   ELSE [r0 EXCEPT !.flags = @ \cup {"eident"}]
         IN Finish(e.id, XCheck(r1, "ident")) /\ UNCHANGED serial

\* "<id> n <nick>": parse_nick()
Nick(e) ==
    IF ~Live(e.id) THEN Ignore
    ELSE LET r1 == [req[e.id] EXCEPT !.nick = Cut(e.nick, NICKLEN), !.flags = @ \cup {"nick"}]
         IN Finish(e.id, XCheck(r1, "nick")) /\ UNCHANGED serial

\* "<id> U <username> :<realname>": parse_user_info(); e.tilde = the user name starts with '~'
UserInfo(e) ==
    IF ~Live(e.id) THEN Ignore
    ELSE LET r0 == req[e.id]
             r1 == [r0 EXCEPT !.cliuser = Cut(e.user, USERLEN), !.clitilde = (e.tilde = 1),
                              !.real = Cut(e.real, REALLEN),
                              !.flags = (@ \cup {"user"}) \cup (IF "eident" \in r0.flags THEN {"ident"} ELSE {})]
         IN Finish(e.id, XCheck(r1, "user")) /\ UNCHANGED serial

\* "<id> H <class>": parse_hurry_up()
HurryUp(e) ==
    IF ~Live(e.id) THEN Ignore
    ELSE LET r1 == [req[e.id] EXCEPT !.flags = @ \cup IauthFlags \cup {"hurry"}]
         IN Finish(e.id, XCheck(r1, "hurry")) /\ UNCHANGED serial

\* "<id> D" / "<id> T": parse_disconnect() / parse_registered(req, 1)
GoneEv(e) ==
    IF ~Live(e.id) THEN Ignore
    ELSE /\ req' = [i \in DOMAIN req \ {e.id} |-> req[i]]
         /\ UNCHANGED <<serial, slots>>
         /\ out' = <<>>

\* Net effect of "<modes>" = ([+-][x!]*)+ given as a sequence of one-character strings:
\* <<m_set, m_clr>> as in iauth_xquery_check_password()
RECURSIVE ModeFold(_, _, _, _, _)
ModeFold(ms, n, set, mset, mclr) ==
    IF n > Len(ms) THEN <<mset, mclr>>
    ELSE LET c == ms[n] IN
         IF c = "+" THEN ModeFold(ms, n + 1, TRUE, mset, mclr)
         ELSE IF c = "-" THEN ModeFold(ms, n + 1, FALSE, mset, mclr)
         ELSE IF c \in {"x", "!"}
              THEN IF set THEN ModeFold(ms, n + 1, set, mset \cup {c}, mclr \ {c})
                   ELSE ModeFold(ms, n + 1, set, mset \ {c}, mclr \cup {c})
         ELSE ModeFold(ms, n + 1, set, mset, mclr)

\* iauth_xquery_password(), MORE branch: forward the raw text to every challenger
RECURSIVE MoreFrom(_, _, _, _, _)
MoreFrom(r, sl, raw, s, acc) ==
    IF s > Len(sl) THEN <<r, sl, acc>>
    ELSE IF s \notin r.more \/ ~sl[s].used \/ ~sl[s].configured THEN MoreFrom(r, sl, raw, s + 1, acc)
    ELSE LET r2 == [r EXCEPT !.more = @ \ {s}, !.soft = IF r.ref = {} THEN @ + 1 ELSE @, !.ref = @ \cup {s}]
             sl2 == [sl EXCEPT ![s].refs = @ + 1]
         IN MoreFrom(r2, sl2, raw, s + 1, Append(acc, XMoreLine(r, s, raw)))

\* "<id> P :<password>": parse_password() -> iauth_xquery_password()
\* e.shape = "ok" (modes, spaces, account, space, rest) or a malformed shape; e.modes, e.cred, e.raw
Password(e) ==
    IF ~Live(e.id) THEN Ignore
    ELSE LET r0 == [req[e.id] EXCEPT !.flags = @ \cup {"pw"}]
             x == IF ~XQ THEN <<r0, slots, <<>> >>       \* no module has a password handler
                  ELSE IF r0.more = {} \/ r0.password = Nil
                  THEN \* iauth_xquery_check_password()
                       IF e.shape # "ok" THEN <<r0, slots, <<>> >>
                       ELSE LET m == ModeFold(e.modes, 1, FALSE, {}, {})
                                was == "!" \in r0.modes
                                m2 == (r0.modes \ m[2]) \cup m[1]
                                is == "!" \in m2
                                noacct == r0.account = Nil
                                h == IF is /\ ~was /\ noacct THEN r0.holds + 1
                                     ELSE IF ~is /\ was /\ noacct THEN r0.holds - 1
                                     ELSE r0.holds
                                r1 == [r0 EXCEPT !.modes = m2, !.holds = h, !.password = Cut(e.cred, PASSLEN)]
                            IN XCheck(r1, "pw")
                  ELSE MoreFrom(r0, slots, e.raw, 1, <<>>)
         IN (IF "D15" \in Bug THEN FinishNoCheck(e.id, x) ELSE Finish(e.id, x)) /\ UNCHANGED serial

\* iauth_validate_request(): the routing tag names a live request with that serial
TagTarget(tag) == {i \in DOMAIN req : Routing(i, req[i].serial) = tag}

\* the slot a reply from service name n is accepted for: first slot in the request's ref_mask whose name matches
ReplySlot(r, n) == LET c == {s \in r.ref : s <= Len(slots) /\ slots[s].used /\ slots[s].name = n}
                   IN IF c = {} THEN 0 ELSE CHOOSE s \in c : \A s2 \in c : s <= s2

\* iauth_xquery_unref(ii)
Unref(sl, s) == IF s <= Len(sl) /\ sl[s].used /\ sl[s].refs = 0 /\ ~sl[s].configured
                THEN [sl EXCEPT ![s] = NoSlot] ELSE sl

\* "-1 X <service> <routing> :<reply>" / "-1 x <service> <routing> :<message>": iauth_xquery_x_reply()
\* e.kind: "OK" (bare), "OKA" (OK + non-empty account word e.acct), "OKE" ("OK " + empty account),
\*         "NO", "AGAIN", "MORE" (with e.text), "UNL" (x line), "JUNK" (anything else)
Reply(e) ==
    LET tg == TagTarget(e.tag) IN
    IF tg = {} \/ ~XQ THEN Ignore
    ELSE LET id == CHOOSE i \in tg : TRUE
             r0 == req[id]
             s == ReplySlot(r0, e.svc)
         IN IF s = 0 \/ e.kind = "JUNK" THEN Ignore
            ELSE IF e.kind = "NO"
            THEN \* iauth_kill(): k line, then the request is retired
                 /\ req' = [i \in DOMAIN req \ {id} |-> req[i]]
                 /\ UNCHANGED <<serial, slots>>
                 /\ out' = << MsgKill(r0, e.text) >>
            ELSE LET t == slots[s].type
                     stamping == IF "D3" \in Bug THEN e.kind \in {"OKA", "OKE"} /\ LoginLike(t)
                                 ELSE e.kind = "OKA" /\ LoginLike(t)
                     hadacct == r0.account # Nil
                     newacct == IF stamping THEN (IF e.kind = "OKA" THEN Cut(e.acct, ACCOUNTLEN) ELSE Nil)
                                ELSE r0.account
                     rel == stamping /\ "!" \in r0.modes /\ (IF "D2" \in Bug THEN TRUE ELSE ~hadacct)
                     r1 == [r0 EXCEPT !.ok = IF e.kind \in {"OK", "OKA", "OKE"} THEN @ \cup {s} ELSE @,
                                      !.account = newacct,
                                      !.holds = IF rel THEN @ - 1 ELSE @,
                                      !.more = IF e.kind = "MORE" THEN @ \cup {s} ELSE @,
                                      !.ref = @ \ {s}]
                     r2 == [r1 EXCEPT !.soft = IF r1.ref = {} THEN @ - 1 ELSE @]
                     pre == (IF stamping /\ r0.modes # {} THEN << MsgMode(r0, "+x") >> ELSE <<>>)
                            \o (IF e.kind \in {"AGAIN", "MORE"} THEN << MsgChal(r0, e.text) >>
                                ELSE IF e.kind = "UNL" /\ t # "dronecheck" THEN << MsgChal(r0, <<"@unlinked", 0>>) >>
                                ELSE <<>>)
                     sl1 == [slots EXCEPT ![s].refs = @ - 1]
                     sl2 == IF sl1[s].refs = 0 THEN Unref(sl1, s) ELSE sl1
                 IN Finish(id, <<r2, sl2, pre>>) /\ UNCHANGED serial

\* The request's one-shot timer fires: iauth_timeout()
Timeout(e) ==
    IF ~Live(e.id) \/ req[e.id].timer # "armed" THEN Ignore
    ELSE LET r1 == [req[e.id] EXCEPT !.soft = 0, !.timer = "fired", !.timedout = TRUE]
         IN Finish(e.id, <<r1, slots, <<>> >>) /\ UNCHANGED serial

\* Lines the tokenizer/dispatcher drops or answers with an oper notice (ReadLine outcome classes):
\*   "drop"   : id only, blanks, unknown id, unknown command, data command without parameter,
\*              short C / X / x / ?, over-long line, more than 16 words for an unknown id
\*   "m1"     : data command e.cmd with id -1  -> "> :ircd sent garbage: -1 <cmd> ..."
\*   "Ushort" : "<live id> U <name>" without real name -> oper notice
Junk(e) ==
    /\ UNCHANGED bvars
    /\ out' = CASE e.shape = "m1" -> << Opers("ircd sent garbage: -1 " \o e.cmd \o " ...") >>
                [] e.shape = "Ushort" /\ Live(e.id) -> << Opers("ircd sent garbage: <id> U without realname") >>
                [] OTHER -> <<>>

\* "-1 ? config": iauth_collect_config() -> iauth_xquery_report_config()
RECURSIVE ConfigLines(_, _)
ConfigLines(s, acc) ==
    IF s > Len(slots) THEN acc
    ELSE IF ~slots[s].used THEN ConfigLines(s + 1, acc)
    ELSE ConfigLines(s + 1, Append(acc, [k |-> "A", mod |-> "xquery", conf |-> slots[s].configured,
                                         name |-> slots[s].name, type |-> slots[s].type]))
InfoConfig(e) ==
    /\ UNCHANGED bvars
    /\ out' = << [k |-> "a"] >> \o (IF XQ THEN ConfigLines(1, <<>>) ELSE <<>>)

-----------------------------------------------------------------------------
(* SIGUSR1: conf_read() succeeds and iauth_xquery_services_changed() rebuilds the table.       *)
(* e.svcs = new section as a sequence of [name, type] in name order.                           *)
\* add = FALSE: only a service the table already has is updated; a new one is refused if its slot would be beyond the
\* 32 bits of the per-client masks
ConfigService(sl, sv, add) ==
    IF ~add /\ {s \in 1..Len(sl) : sl[s].used /\ sl[s].name = sv.name} = {} THEN sl
    ELSE IF {s \in 1..Len(sl) : sl[s].used /\ sl[s].name = sv.name} = {} /\ {s \in 1..Len(sl) : ~sl[s].used} = {} /\ Len(sl) >= 32
    THEN sl
    ELSE
    LET have == {s \in 1..Len(sl) : sl[s].used /\ sl[s].name = sv.name}
        s0 == IF have # {} THEN CHOOSE s \in have : \A s2 \in have : s <= s2
              ELSE LET empty == {s \in 1..Len(sl) : ~sl[s].used}
                   IN IF empty # {} THEN CHOOSE s \in empty : \A s2 \in empty : s <= s2 ELSE Len(sl) + 1
        base == IF have # {} THEN sl
                ELSE IF s0 <= Len(sl) THEN [sl EXCEPT ![s0] = [NoSlot EXCEPT !.name = sv.name, !.used = TRUE]]
                ELSE Append(sl, [NoSlot EXCEPT !.name = sv.name, !.used = TRUE])
    IN IF sv.type \in TypeNames
       THEN [base EXCEPT ![s0].type = sv.type, ![s0].configured = TRUE]
       ELSE [base EXCEPT ![s0].configured = FALSE]

RECURSIVE ConfigAll(_, _, _, _)
ConfigAll(sl, svcs, n, add) == IF n > Len(svcs) THEN sl ELSE ConfigAll(ConfigService(sl, svcs[n], add), svcs, n + 1, add)
RECURSIVE UnrefAll(_, _)
UnrefAll(sl, s) == IF s > Len(sl) THEN sl ELSE UnrefAll(Unref(sl, s), s + 1)

ServicesChanged(svcs) ==
    LET cleared == [s \in 1..Len(slots) |-> [slots[s] EXCEPT !.configured = FALSE]]
    IN UnrefAll(ConfigAll(UnrefAll(ConfigAll(cleared, svcs, 1, FALSE), 1), svcs, 1, TRUE), 1)

Reload(e) ==
    /\ slots' = ServicesChanged(e.svcs)
    /\ UNCHANGED <<serial, req>>
    /\ out' = <<>>

\* A burst of e.n other clients that are announced and withdrawn at once ("<id> C ..." directly followed by "<id> D",
\* ids that are not in use): nothing is printed, nothing stays behind - except that iauth_serial has advanced by e.n.
Burst(e) ==
    /\ serial' = serial + e.n
    /\ UNCHANGED <<req, slots>>
    /\ out' = <<>>

-----------------------------------------------------------------------------
Step(e) ==
    /\ ev' = e
    /\ CASE e.e = "C"  -> Announce(e)
         [] e.e = "N"  -> Hostname(e)
         [] e.e = "d"  -> NoHostname(e)
         [] e.e \in {"u", "u0"} -> Ident(e)
         [] e.e = "n"  -> Nick(e)
         [] e.e = "U"  -> UserInfo(e)
         [] e.e = "H"  -> HurryUp(e)
         [] e.e = "P"  -> Password(e)
         [] e.e \in {"D", "T"} -> GoneEv(e)
         [] e.e = "X"  -> Reply(e)
         [] e.e = "TO" -> Timeout(e)
         [] e.e = "J"  -> Junk(e)
         [] e.e = "QC" -> InfoConfig(e)
         [] e.e = "RL" -> Reload(e)
         [] e.e = "B"  -> Burst(e)

-----------------------------------------------------------------------------
(* Invariants of the hold accounting (DESIGN.md 5.2) *)
HoldsSane == \A i \in DOMAIN req :
    LET r == req[i] IN
    /\ r.holds \in {0, 1}
    /\ (r.holds = 1) <=> ("!" \in r.modes /\ r.account = Nil)
    /\ r.soft \in {-1, 0, 1}
    /\ ~r.timedout => (r.soft = 1 <=> r.ref # {})
    /\ r.soft = -1 => r.timedout
SerialsUnique == \A i, j \in DOMAIN req : i # j => req[i].serial # req[j].serial
SerialBound == \A i \in DOMAIN req : req[i].serial <= serial
RefsCover == \A s \in 1..Len(slots) :
    slots[s].used => slots[s].refs >= Cardinality({i \in DOMAIN req : s \in req[i].ref})
TimerSane == \A i \in DOMAIN req : (req[i].timer = "fired") <=> req[i].timedout
\* the state-level form of "no stuck clients": no live request satisfies the gate's enabling condition
NoReadyLeft == \A i \in DOMAIN req :
    LET r == req[i] IN
    ~(IauthFlags \subseteq r.flags /\ (r.ref = {} \/ r.timedout) /\ ~("!" \in r.modes /\ r.account = Nil))
=============================================================================
