----------------------------- MODULE MCClassGen -----------------------------
(***************************************************************************)
(* C11, sampling model: GenN pseudo-random cases (service set, listing of  *)
(* 1..MaxRules rules, GenM clients) over the pools bound in the .cfg       *)
(* (TLC's RandomElement, seeded by -seed; run with -workers 1).  Every     *)
(* case is an initial state; GenOk checks on it what MCClassRules checks   *)
(* exhaustively on the small pools; GenEmit prints it for the replay.      *)
(***************************************************************************)
EXTENDS MCClassPools, Json

CONSTANTS GenN, GenM

-----------------------------------------------------------------------------
VARIABLES gk, gsv, gl, gc

gvars == <<gk, gsv, gl, gc>>

Pick(S) == RandomElement(S)

RBody(i) ==       \* a criterion is present with probability 1/3 (class 1/2, trust 1/3)
    LET opt(P) == IF Pick(1..3) = 1 THEN Pick(P \ {None}) ELSE None
    IN  [class |-> IF Pick(1..2) = 1 THEN Pick(ClassP \ {None}) ELSE None,
         account |-> opt(AcctP), address |-> opt(AddrP), username |-> opt(UserP), hostname |-> opt(HostP),
         xreply_ok |-> opt(OkP), trust |-> Pick(1..3) = 1]

InjSeqs(n) == {s \in [1..n -> Names] : \A i, j \in 1..n : i # j => s[i] # s[j]}

(* A random draw that is used more than once is bound by a set comprehension over a singleton: TLC re-evaluates  *)
(* a LET definition containing RandomElement at every reference.                                                *)
The(S) == CHOOSE x \in S : TRUE

RListing(k) == The({ [i \in 1..Len(ns) |-> MkRule(ns[i], RBody(i))] :
                     ns \in { Pick(InjSeqs(The({ IF n > MaxRules THEN MaxRules ELSE n : n \in { << 1, 2, 2, 3, 3, 3 >>[Pick(1..6)] } }))) } })

RClient(svcs, j) ==
    The({ [addr |-> Pick(CAddr), host |-> Pick(CHost), ident |-> Pick(CIdent), user |-> Pick(CUser),
           acct |-> IF (\E i \in 1..Len(svcs) : svcs[i].type # "dronecheck" /\ xr[i].ok) /\ Pick(1..4) # 1
                    THEN Pick(CAcct \ {<< >>}) ELSE << >>,
           xr |-> xr] : xr \in { Pick({x \in XrSet(svcs) : \A i \in 1..Len(svcs) : (x[i].ok /\ x[i].ref) => Len(svcs) >= 2}) } })

GenInit == /\ gk \in 1..GenN
           /\ gsv = SvcChoices[Pick(1..Len(SvcChoices))]
           /\ gl = RListing(gk)
           /\ gc = [j \in 1..GenM |-> RClient(gsv, j)]

GenNext == UNCHANGED gvars

GVec == ConfChanged(gl)
GOut == LET v == GVec IN [j \in 1..Len(gc) |-> Accept(v, gc[j])]

GenOk == LET v == GVec
             R == Range(gl)
         IN  /\ \A i \in 1..(Len(v) - 1) : StrCaseLt(v[i].name, v[i + 1].name)
             /\ \A j \in 1..Len(gc) :
                   LET o == Accept(v, gc[j])
                       w == Outcome(R, gc[j])
                   IN  /\ Consistent(gsv, gc[j])
                       /\ FirstUnique(R, gc[j])
                       /\ P11_class(R, gc[j], o)
                       /\ P11_uline(R, gc[j], o)
                       /\ o.cls = w.cls
                       /\ o.u = IF w.trust THEN << StripTilde(gc[j].user) >> ELSE << >>

GenEmit == PrintT("@@E" \o ToJson([svcs |-> gsv, rules |-> gl, clis |-> gc, want |-> GOut,
                                    nm |-> [j \in 1..Len(gc) |-> Cardinality(Matching(Range(gl), gc[j]))]]))

=============================================================================
