"""C13  Netmask parsing and matching are exact.

Spec: spec/Addr.tla (PrefixEq; MaskForm = FormAt / Render / Doc with the documented results;
CheckMaskAlgo, PtonAlgo = transcriptions of irc_check_mask / irc_pton), spec/MCAddrMask.tla
(TLC: CheckMaskAlgo succeeds exactly when PrefixEq, for every group, 16-bit difference of the
domain and length 0..128), spec/MCAddrForms.tla (TLC: every MaskForm instance; PtonAlgo yields the
documented (length, bits, network); renders the texts the harness then feeds to the real code).
Bind (harness/h_addr.c on the rebuilt code, traces validated by TLC, spec/AddrTrace.tla):
 (i)   irc_check_mask for (group, 16-bit difference) x all lengths 0..128, and random pairs with a
       random common prefix, against PrefixEq;
 (ii)  every MaskForm text through irc_pton: (length, bits, network) as documented for the accepted kinds;
       an accepted text of a documented-reject family is DRIFT only (C13 allows "rejected or parsed");
 (iii) all strings up to a length bound over the address alphabet (and longer ones over reduced
       alphabets), plus mutated form texts, through irc_pton with every combination of
       bits NULL / non-NULL and allow_trailing 0 / 1, under ASan with exact-size heap arguments:
       the step completes, the return value is within the string, and where irc_pton and
       inet_pton both accept a plain address they agree.
"""
import concurrent.futures
import json

from vlib import addrlib, core

LEVEL = "model_checking"
TITLE = "netmask parsing and matching are exact"

OWN = "C13_"

MUT_CHARS = "0123456789abcdefABCDEF:./* \tgx-%"


def _model_mutants(ctx):
    cases = [("MCAddrMask", "MCAddrMaskM2.cfg", "AlgoExact", "M2"), ("MCAddrForms", "MCAddrFormsP255.cfg", "AlgoDoc", "P255"),
             ("MCAddrForms", "MCAddrFormsW16.cfg", "AlgoDoc", "W16"), ("MCAddrForms", "MCAddrFormsD17.cfg", "AlgoDoc", "D17")]

    def one(c):
        return c, ctx.tlc(c[0], c[1], workers=2, timeout=600, heap="1g")
    with concurrent.futures.ThreadPoolExecutor(max_workers=4) as ex:
        for (mod, cfg, inv, name), r in ex.map(one, cases):
            if r.violated != inv:
                raise core.MachineryError("model with defect %s re-introduced: expected TLC to report %s, got %r" % (name, inv, r.violated))
    ctx.cov["model_defect_switches_detected"] = [c[3] for c in cases]


def _forms(ctx):
    r = ctx.tlc("MCAddrForms", "MCAddrFormsEmit.cfg", workers=8, timeout=900, heap="3g")
    if r.violated:
        raise core.MachineryError("MCAddrForms violated %s on the model (MaskForm and the transcription disagree):\n%s"
                                  % (r.violated, r.violation_text[:2000]))
    ctx.model_checked(r)
    rows = [json.loads(addrlib._tlc.unquote_printed(l)[3:]) for l in r.printed if l.startswith('"@@F')]
    rows.sort(key=lambda d: (addrlib.FAMILIES.index(d["fam"]), d["i"]))
    return rows


def _mutations(rng, rows, n):
    """Mutated form texts (input generation only; what is required of them is decided by TLC)."""
    texts = sorted({tuple(d["s"]) for d in rows})
    out = []
    seen = set()
    # systematic part: every single deletion and every single replacement by ':' '.' '/' '*' '1' of one text per family
    firsts = {}
    for d in rows:
        firsts.setdefault(d["fam"], []).append(d["s"])
    for fam, lst in sorted(firsts.items()):
        base = max(lst, key=len)
        for i in range(len(base)):
            out.append(base[:i] + base[i + 1:])
            for ch in ":./*1 ":
                out.append(base[:i] + [ord(ch)] + base[i + 1:])
                out.append(base[:i] + [ord(ch)] + base[i:])
    while len(out) < n:
        s = list(rng.choice(texts))
        for _ in range(rng.choice((1, 1, 1, 2, 3))):
            op = rng.randrange(7)
            i = rng.randrange(len(s) + 1)
            if op == 0 and s:
                del s[min(i, len(s) - 1)]
            elif op == 1:
                s.insert(i, ord(rng.choice(MUT_CHARS)))
            elif op == 2 and s:
                s[min(i, len(s) - 1)] = ord(rng.choice(MUT_CHARS))
            elif op == 3 and s:
                j = min(i, len(s) - 1)
                s.insert(j, s[j])
            elif op == 4:
                s = s[:i]
            elif op == 5:
                o = list(rng.choice(texts))
                s = s[:i] + o[rng.randrange(len(o) + 1):]
            else:
                s = s + [ord(rng.choice(":./*"))] + list(rng.choice(texts))
        out.append(s[:120])
    res = []
    for s in out:
        t = tuple(s)
        if t not in seen and 0 not in t:
            seen.add(t)
            res.append(s)
    return res


def run(ctx):
    quick = ctx.tier == "quick"
    run = addrlib.Runner(ctx, OWN)

    _model_mutants(ctx)
    r = ctx.tlc("MCAddrMask", "MCAddrMaskQ.cfg" if quick else "MCAddrMaskT.cfg", workers=16, timeout=900, heap="6g")
    if r.violated:
        raise core.MachineryError("MCAddrMask: %s violated on the model:\n%s" % (r.violated, r.violation_text[:2000]))
    ctx.model_checked(r)
    rows = _forms(ctx)

    jobs = []
    # (i) mask matching
    full = not quick
    nmask = 8 * 65535 if full else 8 * 48
    kmask = 12 if full else 1
    for k in range(kmask):
        lo, hi = (k * nmask) // kmask, ((k + 1) * nmask) // kmask - 1
        jobs.append(addrlib.Job("mask%d" % k, ["mask", 1 if full else 0, ctx.seed, lo, hi],
                                {"DOM": "mask", "FULL": full, "CHUNK": k, "NCHUNK": kmask}))
    nmr = 130 * (8 if quick else 200)
    jobs.append(addrlib.Job("rmask", ["maskr", ctx.seed, nmr], {"DOM": "maskr", "COUNT": nmr}))
    # the same IPv4 address in different embeddings (::x, ::ffff:x, 2002:x::, 64:ff9b::x, ...), all lengths
    nm4 = 36 * (12 if quick else 400)
    jobs.append(addrlib.Job("v4mask", ["maskv4", ctx.seed, nm4], {"DOM": "maskr", "COUNT": nm4}))
    # (ii) mask forms
    lines = ["form %s %d %s" % (d["fam"], d["i"], " ".join(map(str, d["s"]))) for d in rows]
    kf = 4
    for k in range(kf):
        lo, hi = (k * len(lines)) // kf, ((k + 1) * len(lines)) // kf - 1
        jobs.append(addrlib.Job("form%d" % k, ["lines"], {"DOM": "form", "NCHUNK": 0, "CHUNK": lo, "COUNT": hi}, stdin=lines[lo:hi + 1]))
    # (iii) strings
    fams = [("A10", 5, 1), ("A2", 17, 1), ("A3", 10, 1)] if quick else [("A10", 7, 16), ("A6", 8, 4), ("A2", 19, 2), ("A3", 12, 2)]
    nstr = 0
    for name, maxlen, kk in fams:
        alpha = addrlib.ALPHABETS[name]
        total = addrlib.str_count(len(alpha), maxlen)
        nstr += total
        for k in range(kk):
            lo, hi = (k * total) // kk, ((k + 1) * total) // kk - 1
            jobs.append(addrlib.Job("str%s-%d" % (name, k), ["strs", alpha, maxlen, lo, hi],
                                    {"DOM": "str", "ALPHA": name, "MAXLEN": maxlen, "CHUNK": k, "NCHUNK": kk}))
    muts = _mutations(ctx.rng, rows, 6000 if quick else 60000)
    km = 1 if quick else 3
    for k in range(km):
        part = muts[(k * len(muts)) // km:((k + 1) * len(muts)) // km]
        jobs.append(addrlib.Job("mut%d" % k, ["lines"], {"DOM": "mut", "COUNT": len(part)},
                                stdin=["mut - %d %s" % (i, " ".join(map(str, s))) for i, s in enumerate(part)]))

    # big jobs first so that the pool drains evenly
    results = run.run_all(jobs, workers=14)
    run.process(results)
    run.check_tiling(results, "mask", nmask)
    run.check_tiling(results, "form", len(lines))
    for name, maxlen, kk in fams:
        run.check_tiling(results, "str%s-" % name, addrlib.str_count(len(addrlib.ALPHABETS[name]), maxlen))
    ctx.cov["exhaustive"] = True
    ctx.cov["rule"] = ("distinct strings accepted by irc_pton in some configuration or by inet_pton (incl. every mask form text and mutated "
                       "text that reached a parser), among the cases run on the real code; mask pairs are counted in evaluations only")
    ctx.cov["domains"] = {"mask_pairs": nmask + nmr + nm4, "mask_pairs_ipv4_embeddings": nm4, "lengths_per_pair": 129, "mask_forms": len(rows),
                          "strings_enumerated": nstr, "string_families": [[a, m] for a, m, _ in fams], "mutated_strings": len(muts)}
    ctx.cov["check_mask_evaluations"] = (nmask + nmr + nm4) * 129
    ctx.assumptions.append("memory clause: exploration under ASan/UBSan with exact-size heap arguments over the enumerated and "
                           "mutated strings, not a proof; UBSan diagnostics that are not memory errors are recorded only")
    ctx.assumptions.append("documented results = the irc_pton comment in modules/iauth.h and tests/test_iauth.c, generalised "
                           "structurally (Addr!FormAt); network bits are compared on the leading `bits` bits")
    ctx.assumptions.append("agreement with the standard library is required where irc_pton(addr, NULL, s, 0) consumes all of s and "
                           "inet_pton accepts s, and - with trailing text allowed - where the text irc_pton consumed is itself a "
                           "plain address of the standard syntax (the x of 'x/24' with bits = NULL, of 'x/a', of 'x y'); compared "
                           "after mapping IPv4-compatible to IPv4-mapped")
    run.finish()


def replay(ctx, body):
    addrlib.replay_job(ctx, OWN, body)
