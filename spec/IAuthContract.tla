--------------------------- MODULE IAuthContract ---------------------------
(***************************************************************************)
(* Contract specification (A) of the iauthd-c daemon, stated only in terms *)
(* of what the IRC server can observe: the input lines it wrote and the    *)
(* output lines it read, step by step.  It is the most permissive          *)
(* behaviour properties C01-C07, C09, C10, C17 allow (DESIGN.md App. A).   *)
(*                                                                         *)
(* The contract is a monitor: CStep(c, e, o, n) takes the contract state,  *)
(* the event (one input line / one timer firing), the *observed* output of *)
(* that step (sequence of parsed messages) and the in-use count reported   *)
(* at the end of the step, and returns the new contract state together     *)
(* with the set of violated conjuncts (named after the property).          *)
(* It is used unchanged (1) composed with the implementation-shaped spec   *)
(* IAuth.tla, to model-check that B refines A, and (2) on traces recorded  *)
(* from the real daemon (IAuthTrace.tla), where it is the VIOLATION oracle.*)
(***************************************************************************)
EXTENDS Integers, Sequences, FiniteSets, TLC

Nil == <<"", 0>>
Min(a, b) == IF a < b THEN a ELSE b
Cut(t, n) == IF t[2] = 0 THEN Nil ELSE <<t[1], Min(t[2], n)>>

\* documented limits (modules/iauth.h, modules/iauth_xquery.c)
NICKLEN == 30
USERLEN == 10
HOSTLEN == 63
REALLEN == 50
ACCOUNTLEN == 64
PASSLEN == 511

LoginLike(t) == t \in {"login", "login-ipr", "combined"}
Prereq(t) == CASE t = "login"      -> {}
               [] t = "login-ipr"  -> {"host", "ident"}
               [] t = "dronecheck" -> {"host", "ident", "nick", "user"}
               [] t = "combined"   -> {"host", "ident", "nick", "user"}
               [] OTHER            -> {"never"}
KnownType(t) == t \in {"login", "login-ipr", "dronecheck", "combined"}

\* ---------------------------------------------------------------------------------------------
\* Contract state:
\*   c.cfg   = [svcs |-> sequence of [name, type], required |-> set of data items, timeout |-> BOOLEAN]
\*   c.cl    = function: live client id -> client record
\*   c.tags  = every routing tag ever seen on a query, with the client id it was seen for: set of <<tag, id>>.
\*             (How the daemon forms tags is its own business - the source announces a hash-based format -, so the
\*             contract does not demand that a tag never repeats; it demands what the properties need: a new instance's
\*             tag differs from the tags of the OTHER live instances, and nothing carries the tag of a departed client
\*             whose id has not been announced again.)
\*   c.gens  = function: client id -> number of times the server has announced it
CInit(cfg) == [cfg |-> cfg, cl |-> <<>>, tags |-> {}, gens |-> <<>>]
\* iauth_xquery loaded?  (cfg.xq, default TRUE.)  Without it nothing parses passwords, nothing is queried and only
\* the host name result is required (cfg.required says so); replies are strays.
XQc(c) == "xq" \notin DOMAIN c.cfg \/ c.cfg.xq
GenOf(c, i) == IF i \in DOMAIN c.gens THEN c.gens[i] ELSE 0

NewClient(e) ==
    [addr |-> e.addr, port |-> e.port, atext |-> "",
     got |-> {}, eident |-> FALSE,
     host |-> Nil, ident |-> Nil, cliuser |-> Nil, clitilde |-> FALSE, nick |-> Nil, real |-> Nil,
     cred |-> Nil, hide |-> FALSE, bang |-> FALSE,
     sent |-> {}, owes |-> {}, chal |-> {}, okd |-> {},
     acct |-> Nil, expired |-> FALSE, tag |-> "", ndone |-> 0, gen |-> 0]

SvcNames(c) == {c.cfg.svcs[n].name : n \in 1..Len(c.cfg.svcs)}
TypeOf(c, s) == LET ns == {n \in 1..Len(c.cfg.svcs) : c.cfg.svcs[n].name = s}
                IN IF ns = {} THEN "" ELSE c.cfg.svcs[CHOOSE n \in ns : TRUE].type
Configured(c, s) == KnownType(TypeOf(c, s))

DataDone(c, x) == c.cfg.required \subseteq x.got
Ready(c, x) == /\ DataDone(c, x)
               /\ (x.owes = {} \/ x.expired)
               /\ ~(x.bang /\ x.acct = Nil)

\* service s must be queried for client x now (first query)
Due(c, x, s) == /\ Configured(c, s)
                /\ s \notin x.sent
                /\ Prereq(TypeOf(c, s)) \subseteq x.got
                /\ (TypeOf(c, s) \in {"login", "login-ipr"} => x.cred # Nil)

\* the user name a query carries: ident, else the claimed name marked ~ (not doubled), within USERLEN
UserField(x) ==
    IF x.ident # Nil THEN <<0, x.ident[1], Min(x.ident[2], USERLEN)>>
    ELSE IF x.cliuser # Nil /\ x.clitilde THEN <<0, x.cliuser[1], Min(x.cliuser[2], USERLEN)>>
    ELSE IF x.cliuser # Nil THEN <<1, x.cliuser[1], Min(x.cliuser[2], USERLEN - 1)>>
    ELSE <<0, "", 0>>
HostField(x) == IF x.host # Nil THEN Cut(x.host, HOSTLEN) ELSE <<"@addr", 0>>

\* the queries (without tag and address text, which are checked separately) that service s gets
QueryCores(c, x, s) ==
    LET t == TypeOf(c, s)
        chk == [svc |-> s, q |-> "CHECK", nick |-> Cut(x.nick, NICKLEN), user |-> UserField(x),
                host |-> HostField(x), real |-> Cut(x.real, REALLEN)]
        lg == [svc |-> s, q |-> "LOGIN", cred |-> Cut(x.cred, PASSLEN)]
        lg2 == [svc |-> s, q |-> "LOGIN2", host |-> HostField(x), user |-> UserField(x), cred |-> Cut(x.cred, PASSLEN)]
    IN (IF t \in {"dronecheck", "combined"} THEN <<chk>> ELSE <<>>)
       \o (IF x.cred = Nil THEN <<>>
           ELSE IF t \in {"login", "combined"} THEN <<lg>>
           ELSE IF t = "login-ipr" THEN <<lg2>> ELSE <<>>)

\* projection of an observed X line to its core
Core(m) == CASE m.q = "CHECK"  -> [svc |-> m.svc, q |-> "CHECK", nick |-> m.nick, user |-> m.user, host |-> m.host, real |-> m.real]
             [] m.q = "LOGIN"  -> [svc |-> m.svc, q |-> "LOGIN", cred |-> m.cred]
             [] m.q = "LOGIN2" -> [svc |-> m.svc, q |-> "LOGIN2", host |-> m.host, user |-> m.user, cred |-> m.cred]
             [] m.q = "MORE"   -> [svc |-> m.svc, q |-> "MORE", raw |-> m.raw]
             [] OTHER          -> [svc |-> m.svc, q |-> m.q]

Count(seq, v) == Cardinality({n \in 1..Len(seq) : seq[n] = v})
SameBag(a, b) == /\ Len(a) = Len(b)
                 /\ \A n \in 1..Len(a) : Count(a, a[n]) = Count(b, a[n])
SelectSeq2(seq, P(_)) == SelectSeq(seq, P)

ClientKinds == {"D", "R", "k", "d", "C", "M", "U", "N", "I", "o", "u"}
Verdicts == {"D", "R", "k"}
NamesId(m, i, tag) == (m.k \in ClientKinds /\ m.id = i) \/ (m.k = "X" /\ tag # "" /\ m.tag = tag)

\* ---------------------------------------------------------------------------------------------
\* The step.  e: event record, o: observed output (sequence of message records), n: reported in-use count
CStep(c, e, o, n) ==
    LET
    \* ---- who is this step about -------------------------------------------------------------
    isReply == e.e = "X"
    \* a reply is addressed to a live instance when it carries that instance's tag; where the environment says which
    \* instance it means (ti / tn: client id and announcement number, added by the driver from the model's tag), a reply
    \* meant for a departed instance is NOT addressed to a newcomer even if the daemon re-used the tag text
    addressed == IF isReply THEN {i \in DOMAIN c.cl : /\ c.cl[i].tag # "" /\ c.cl[i].tag = e.tag
                                                    /\ ("tn" \notin DOMAIN e \/ (e.ti = i /\ e.tn = c.cl[i].gen))}
                 ELSE {}
    awaited == isReply /\ addressed # {} /\ e.kind # "JUNK"
               /\ e.svc \in c.cl[CHOOSE i \in addressed : TRUE].owes
    tgt == IF isReply THEN (IF awaited THEN CHOOSE i \in addressed : TRUE ELSE -1)
           ELSE IF e.e \in {"J", "QC", "RL", "B"} THEN -1
           ELSE IF e.e = "C" THEN e.id
           ELSE IF e.id \in DOMAIN c.cl THEN e.id ELSE -1
    stray == isReply /\ ~awaited
    \* ---- state after the input line, before looking at the output -----------------------------
    x0 == IF e.e = "C" THEN [NewClient(e) EXCEPT !.gen = GenOf(c, e.id) + 1] ELSE IF tgt # -1 THEN c.cl[tgt] ELSE NewClient([addr |-> Nil, port |-> 0])
    pwmore == e.e = "P" /\ tgt # -1 /\ x0.chal # {} /\ x0.cred # Nil /\ XQc(c)
    pwok == e.e = "P" /\ tgt # -1 /\ ~pwmore /\ e.shape = "ok" /\ XQc(c)
    netSetX == pwok /\ \E k \in 1..Len(e.modes) : e.modes[k] = "x"
    x1 == IF tgt = -1 THEN x0
          ELSE CASE e.e = "N" -> IF x0.host # Nil THEN x0 ELSE [x0 EXCEPT !.got = @ \cup {"host"}, !.host = e.host]
                 [] e.e = "d" -> [x0 EXCEPT !.got = @ \cup {"host"}]
                 [] e.e = "u" -> [x0 EXCEPT !.got = @ \cup {"ident"}, !.ident = e.ident]
                 [] e.e = "u0" -> IF x0.cliuser # Nil THEN [x0 EXCEPT !.got = @ \cup {"ident"}]
                                  ELSE [x0 EXCEPT !.eident = TRUE]
                 [] e.e = "n" -> [x0 EXCEPT !.got = @ \cup {"nick"}, !.nick = e.nick]
                 [] e.e = "U" -> [x0 EXCEPT !.got = (@ \cup {"user"}) \cup (IF x0.eident THEN {"ident"} ELSE {}),
                                           !.cliuser = e.user, !.clitilde = (e.tilde = 1), !.real = e.real]
                 [] e.e = "H" -> [x0 EXCEPT !.got = @ \cup {"host", "ident", "nick", "user", "hurry"}]
                 [] e.e = "TO" -> IF c.cfg.timeout THEN [x0 EXCEPT !.expired = TRUE] ELSE x0
                 [] OTHER -> x0
    \* net effect of the mode string on hide / bang: the last sign before the last occurrence decides
    LastOcc(ch) == LET ks == {k \in 1..Len(e.modes) : e.modes[k] = ch} IN
                   IF ks = {} THEN 0 ELSE CHOOSE k \in ks : \A k2 \in ks : k2 <= k
    SignBefore(k) == LET ss == {j \in 1..(k - 1) : e.modes[j] \in {"+", "-"}} IN
                     IF ss = {} THEN "-" ELSE e.modes[CHOOSE j \in ss : \A j2 \in ss : j2 <= j]
    NetMode(ch, old) == IF LastOcc(ch) = 0 THEN old ELSE SignBefore(LastOcc(ch)) = "+"
    x2 == IF pwok THEN [x1 EXCEPT !.hide = NetMode("x", x1.hide), !.bang = NetMode("!", x1.bang), !.cred = e.cred]
          ELSE x1
    \* ---- observed output, classified ------------------------------------------------------------
    idx == 1..Len(o)
    xs == SelectSeq(o, LAMBDA m : m.k = "X")
    cms == SelectSeq(o, LAMBDA m : m.k \in ClientKinds)
    opers == SelectSeq(o, LAMBDA m : m.k = ">")
    bads == SelectSeq(o, LAMBDA m : m.k = "BAD")
    \* tags: every X line of the step must carry the target's tag (known, or fresh and then learned)
    obsTags == {xs[k].tag : k \in 1..Len(xs)}
    tagOK == \/ xs = <<>>
             \/ /\ tgt # -1
                /\ Cardinality(obsTags) = 1
                /\ IF x2.tag # "" THEN obsTags = {x2.tag}
                   ELSE obsTags \cap {c.cl[i].tag : i \in DOMAIN c.cl \ {tgt}} = {}
    newTag == IF tgt # -1 /\ x2.tag = "" /\ xs # <<>> THEN xs[1].tag ELSE x2.tag
    \* ---- queries --------------------------------------------------------------------------------
    queryEvent == tgt # -1 /\ (e.e \in {"N", "d", "u", "u0", "n", "U", "H"} \/ pwok)
    svcsObs == {xs[k].svc : k \in 1..Len(xs)}
    dueSet == IF queryEvent THEN {s \in SvcNames(c) : Due(c, x2, s)} ELSE {}
    requery == IF pwok THEN {s \in x2.sent : Configured(c, s) /\ TypeOf(c, s) # "dronecheck"
                                              /\ Prereq(TypeOf(c, s)) \subseteq x2.got} ELSE {}
    ObsCores(s) == LET f == SelectSeq(xs, LAMBDA m : m.svc = s) IN [k \in 1..Len(f) |-> Core(f[k])]
    queriesOK ==
        IF pwmore
        THEN /\ svcsObs = {s \in x2.chal : Configured(c, s)}
             /\ \A s \in svcsObs : ObsCores(s) = << [svc |-> s, q |-> "MORE", raw |-> e.raw] >>
        ELSE /\ svcsObs \subseteq dueSet \cup requery
             /\ dueSet \subseteq svcsObs
             /\ \A s \in svcsObs : SameBag(ObsCores(s), QueryCores(c, x2, s))
    timelyOK == dueSet \subseteq svcsObs        \* "not skipped"
    x3 == IF pwmore THEN [x2 EXCEPT !.owes = @ \cup svcsObs, !.chal = @ \ svcsObs, !.tag = newTag]
          ELSE [x2 EXCEPT !.owes = @ \cup svcsObs, !.sent = @ \cup svcsObs, !.tag = newTag]
    \* ---- replies --------------------------------------------------------------------------------
    rt == IF awaited THEN TypeOf(c, e.svc) ELSE ""
    stamping == awaited /\ e.kind = "OKA" /\ LoginLike(rt)
    x4 == IF ~awaited THEN x3
          ELSE CASE e.kind \in {"OK", "OKE"} -> [x3 EXCEPT !.owes = @ \ {e.svc}, !.okd = @ \cup {e.svc}]
                 [] e.kind = "OKA" -> [x3 EXCEPT !.owes = @ \ {e.svc}, !.okd = @ \cup {e.svc},
                                                 !.acct = IF stamping THEN e.acct ELSE @]
                 [] e.kind = "AGAIN" -> [x3 EXCEPT !.owes = @ \ {e.svc}]
                 [] e.kind = "MORE" -> [x3 EXCEPT !.owes = @ \ {e.svc}, !.chal = @ \cup {e.svc}]
                 [] e.kind = "UNL" -> [x3 EXCEPT !.owes = @ \ {e.svc}]
                 [] OTHER -> x3
    refused == awaited /\ e.kind = "NO"
    \* ---- what the step must / may say to the client ----------------------------------------------
    mustAccept == tgt # -1 /\ ~refused /\ e.e \notin {"D", "T"} /\ Ready(c, x4)
    accepts == SelectSeq(cms, LAMBDA m : m.k \in {"D", "R"})
    kills == SelectSeq(cms, LAMBDA m : m.k = "k")
    dones == SelectSeq(cms, LAMBDA m : m.k = "d")
    chals == SelectSeq(cms, LAMBDA m : m.k = "C")
    modes == SelectSeq(cms, LAMBDA m : m.k = "M")
    others == SelectSeq(cms, LAMBDA m : m.k \notin {"D", "R", "k", "d", "C", "M", "U"})
    \* class clause of C05 (the rule semantics themselves are C11, spec ClassRules.tla): with the probe rule table
    \*   "<ra>" { account "?*"; class <cfg.cls.acct> }   "<rz>" { class <cfg.cls.none> }
    \* configured (cfg.cls.on), an accepted client with a stamp is in class cfg.cls.acct, one without in cfg.cls.none
    clsOn == "cls" \in DOMAIN c.cfg /\ c.cfg.cls.on
    \* optional leading rules "<r0>", "<r1>", ... { xreply_ok <cfg.cls.xr[k].svc>; class <cfg.cls.xr[k].class> } (in that
    \* order): the first one whose service has said OK to this client decides
    xrs == IF clsOn /\ "xr" \in DOMAIN c.cfg.cls THEN c.cfg.cls.xr ELSE << >>
    xrHit == {k \in 1..Len(xrs) : xrs[k].svc \in x4.okd}
    clsOK(m) == ~clsOn \/ m.cls = (IF xrHit # {} THEN xrs[CHOOSE k \in xrHit : \A k2 \in xrHit : k <= k2].class
                                    ELSE IF x4.acct # Nil THEN c.cfg.cls.acct ELSE c.cfg.cls.none)
    acceptOK == IF mustAccept
                THEN /\ Len(accepts) = 1
                     /\ IF x4.acct # Nil
                        THEN accepts[1].k = "R" /\ accepts[1].acct = Cut(x4.acct, ACCOUNTLEN)
                        ELSE accepts[1].k = "D"
                     /\ clsOK(accepts[1])
                ELSE accepts = <<>>
    killOK == IF refused THEN Len(kills) = 1 /\ kills[1].text = e.text
              ELSE kills = <<>>
    \* "+x is sent when such a client asked for host hiding": required when the client asked for +x; the code
    \* also hides a client that asked for +! only - the property does not decide that case, so it is permitted
    modeOK == IF stamping /\ x3.hide THEN Len(modes) = 1 /\ modes[1].modes = "+x"
              ELSE IF stamping /\ x3.bang THEN Len(modes) <= 1 /\ \A k \in 1..Len(modes) : modes[k].modes = "+x"
              ELSE modes = <<>>
    chalOK == IF awaited /\ e.kind \in {"AGAIN", "MORE"} THEN Len(chals) = 1 /\ chals[1].text = e.text
              ELSE IF awaited /\ e.kind = "UNL" THEN Len(chals) <= 1
              ELSE chals = <<>>
    \* everything client-directed is about the target, which is live
    scopeOK == \A k \in 1..Len(cms) : tgt # -1 /\ cms[k].id = tgt
    \* nothing names the client after its verdict within the step
    lastOK == \A k \in idx : (o[k].k \in Verdicts) =>
                 \A j \in (k + 1)..Len(o) : ~NamesId(o[j], o[k].id, x3.tag)
    verdictCount == Len(accepts) + Len(kills) <= 1
    softOK == Len(dones) + x4.ndone <= 1 /\ (dones # <<>> => tgt # -1)
    \* nothing names a client in the step that withdraws it or reports it registered
    goneOK == e.e \in {"D", "T"} => o = <<>>
    \* address text and port as announced
    atexts == {cms[k].atext : k \in 1..Len(cms)}
              \cup {xs[k].atext : k \in {j \in 1..Len(xs) : xs[j].q \in {"CHECK", "LOGIN2"}}}
    wireOK == /\ bads = <<>>
              /\ \A k \in 1..Len(cms) : cms[k].port = x4.port
              /\ Cardinality(atexts) <= 1
              /\ (x4.atext # "" => atexts \subseteq {x4.atext})
    atext2 == IF atexts # {} /\ x4.atext = "" THEN CHOOSE a \in atexts : TRUE ELSE x4.atext
    opersOK == opers # <<>> => e.e = "J"
    \* "? config": the services reported as configured are those of the configuration in force
    confLines == SelectSeq(o, LAMBDA m : m.k = "A" /\ m.mod = "xquery")
    configOK == e.e = "QC" =>
                   {<<confLines[k].name, confLines[k].type>> : k \in {j \in 1..Len(confLines) : confLines[j].conf}}
                   = {<<c.cfg.svcs[k].name, c.cfg.svcs[k].type>> : k \in {j \in 1..Len(c.cfg.svcs) : KnownType(c.cfg.svcs[j].type)}}
    \* ---- new contract state -----------------------------------------------------------------------
    ended == refused \/ accepts # <<>> \/ (tgt # -1 /\ e.e \in {"D", "T"})
    x5 == [x4 EXCEPT !.ndone = @ + Len(dones), !.atext = atext2]
    cl2 == IF tgt = -1 THEN c.cl
           ELSE IF ended THEN [i \in DOMAIN c.cl \ {tgt} |-> c.cl[i]]
           ELSE [i \in DOMAIN c.cl \cup {tgt} |-> IF i = tgt THEN x5 ELSE c.cl[i]]
    cfg2 == IF e.e = "RL" THEN [c.cfg EXCEPT !.svcs = e.svcs] ELSE c.cfg
    gens2 == IF e.e = "C" THEN [i \in DOMAIN c.gens \cup {e.id} |-> IF i = e.id THEN GenOf(c, i) + 1 ELSE c.gens[i]]
             ELSE c.gens
    c2 == [cfg |-> cfg2, cl |-> cl2, tags |-> c.tags \cup {<<t, tgt>> : t \in obsTags}, gens |-> gens2]
    \* nothing names a client that is not live: every client-directed line is for an id that was live before the step
    \* (or is being announced), and no query carries the tag of a departed instance
    liveBefore == DOMAIN c.cl \cup (IF e.e = "C" THEN {e.id} ELSE {})
    liveTags == {c.cl[i].tag : i \in DOMAIN c.cl}
    \* tags of departed clients whose id is not live (again): "no query carrying its routing tag ... until the server
    \* announces the same id again"
    deadTags == {p[1] : p \in {q \in c.tags : q[2] \notin liveBefore}} \ liveTags
    deadOK == /\ \A k \in 1..Len(cms) : cms[k].id \in liveBefore
              /\ \A k \in 1..Len(xs) : xs[k].tag \notin deadTags
    \* a stray reply, a junk line or a line for an unknown client must have no effect at all
    silent == stray \/ e.e = "RL" \/ (tgt = -1 /\ e.e \notin {"J", "QC"})
    \* ---- verdict ---------------------------------------------------------------------------------
    viol ==
        (IF verdictCount /\ softOK /\ lastOK /\ goneOK /\ deadOK /\ (accepts # <<>> \/ kills # <<>> => tgt # -1) THEN {} ELSE {"P01_once"})
        \cup (IF mustAccept \/ accepts = <<>> THEN {} ELSE {"P02_gate"})
        \cup (IF ~mustAccept \/ Len(accepts) >= 1 THEN {} ELSE {"P03_prompt"})
        \cup (IF stray => (o = <<>>) THEN {} ELSE {"P04_stray"})
        \cup (IF (mustAccept /\ Len(accepts) = 1 => acceptOK) /\ killOK /\ modeOK /\ chalOK /\ others = <<>>
              THEN {} ELSE {"P05_content"})
        \cup (IF tagOK /\ queriesOK THEN {} ELSE {"P06_queries"})
        \cup (IF scopeOK /\ (silent => o = <<>>) THEN {} ELSE {"P07_scope"})
        \cup (IF wireOK /\ opersOK THEN {} ELSE {"P09_wire"})
        \cup (IF n = -1 \/ n = Cardinality(DOMAIN cl2) THEN {} ELSE {"P10_count"})
        \cup (IF configOK THEN {} ELSE {"P17_config"})
    IN [c |-> c2, v |-> viol]
=============================================================================
