CONSTANTS
  ARGV = 2
  Bug <- NoBug
  Alphabet <- Sigma10
  MaxLen = 5
  MaxChunk = 5
  Streams <- AllStreams
INIT RInit
NEXT RNext
INVARIANT DeliveredIsContract
INVARIANT BufferIsTail
INVARIANT ArgvInBounds
INVARIANT EofClean
