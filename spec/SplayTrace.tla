----------------------------- MODULE SplayTrace -----------------------------
(***************************************************************************)
(* Drift detector for C19: a trace recorded from the REAL src/set.c (same  *)
(* ndjson lines as SetTrace.tla) is followed by the implementation-shaped  *)
(* specification Splay.tla, call by call; the tree shape the real code     *)
(* produced (pre-order keys) must equal the model's.  A difference is      *)
(* DRIFT (the model no longer describes how the code meets the contract),  *)
(* never a VIOLATION: the contract is judged by SetTrace.tla.              *)
(***************************************************************************)
EXTENDS Splay, Json, IOUtils

TraceLog == ndJsonDeserialize(IOEnv.TRACE)

VARIABLES pos,       \* next line
          drift,     \* 0, or the first line whose shape / observation differs from the model
          base,      \* model state at the last Mark
          restored   \* the model state has been set back to base for a "b":1 line

tvars == <<vars, pos, drift, base, restored>>

State == [root |-> root, count |-> count, l |-> l, r |-> r, prv |-> prv, nxt |-> nxt, key |-> key,
          nid |-> nid, cl |-> cl, kept |-> kept, op |-> op]
Load(s) == /\ root' = s.root /\ count' = s.count /\ l' = s.l /\ r' = s.r /\ prv' = s.prv /\ nxt' = s.nxt
           /\ key' = s.key /\ nid' = s.nid /\ cl' = s.cl /\ kept' = s.kept /\ op' = s.op

Empty == [root |-> NULL, count |-> 0, l |-> EmptyF, r |-> EmptyF, prv |-> EmptyF, nxt |-> EmptyF, key |-> EmptyF,
          nid |-> 1, cl |-> EmptyF, kept |-> {}, op |-> [o |-> "init"]]

Line == TraceLog[pos]

TraceInit == /\ root = NULL /\ count = 0 /\ l = EmptyF /\ r = EmptyF /\ prv = EmptyF /\ nxt = EmptyF /\ key = EmptyF
             /\ nid = 1 /\ cl = EmptyF /\ kept = {} /\ op = [o |-> "init"]
             /\ pos = 1 /\ drift = 0 /\ base = Empty /\ restored = FALSE

Skip == /\ Line.e = "Keys"
        /\ pos' = pos + 1
        /\ UNCHANGED <<vars, drift, base, restored>>

Reset == /\ Line.e = "Reset"
         /\ Load(Empty)
         /\ pos' = pos + 1 /\ restored' = FALSE
         /\ UNCHANGED <<drift, base>>

Mark == /\ Line.e = "Mark"
        /\ base' = State
        /\ pos' = pos + 1
        /\ UNCHANGED <<vars, drift, restored>>

Back == /\ Line.e = "Op" /\ Line.b = 1 /\ ~restored
        /\ Load(base)
        /\ restored' = TRUE
        /\ UNCHANGED <<pos, drift, base>>

Call == /\ Line.e = "Op" /\ (Line.b = 1 => restored)
        /\ CASE Line.o = "ins"   -> Insert(Line.k, PoisonLinks)    \* the outcome does not depend on the links found
             [] Line.o = "find"  -> Find(Line.k)
             [] Line.o = "lower" -> Lower(Line.k)
             [] Line.o = "rem"   -> Remove(Line.k, Line.nd = 1)
             [] Line.o = "clear" -> Clear(Line.nd = 1)
             [] Line.o = "iter"  -> Iterate
        /\ drift' = IF drift = 0 /\ (Shape' # Line.shape \/ op'.res # Line.res \/ op'.cleaned # Line.cl
                                     \/ (Line.o = "ins" /\ op'.id # Line.id))
                    THEN pos ELSE drift
        /\ pos' = pos + 1 /\ restored' = FALSE
        /\ UNCHANGED base

TraceNext == pos <= Len(TraceLog) /\ (Skip \/ Reset \/ Mark \/ Back \/ Call)
TraceSpec == TraceInit /\ [][TraceNext]_tvars

NoDrift == drift = 0
AllConsumed == TLCGet("stats").diameter >= Len(TraceLog) + 1
=============================================================================
