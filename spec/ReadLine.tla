------------------------------ MODULE ReadLine ------------------------------
(***************************************************************************)
(* The input layer of iauthd-c as a state machine: a peer writes a byte    *)
(* stream, iauth_read() gets it in read() chunks of any size, the peer may *)
(* die after any byte.  The operators (contract A: ADeliver ...;           *)
(* implementation B: BReadLn, BStrtol, BTokLoop, BDrain ...) are defined   *)
(* in ReadLineOps.tla, see the comment there.  The invariants at the end   *)
(* state that B refines A: chunking-invariance, prefix-closure (peer       *)
(* death), no line stuck or lost in the buffer (every complete line that   *)
(* has been read has been delivered when the read returns: the safety form *)
(* of "does not hang on lines it holds"), argv[] stores in bounds, an      *)
(* absent optional parameter is NULL for the handler, clean end of input.  *)
(***************************************************************************)
EXTENDS ReadLineOps

-----------------------------------------------------------------------------
(* The state machine: a peer writes a byte stream, the daemon read()s it in  *)
(* chunks of any size up to MaxChunk, the peer may die after any byte.       *)
CONSTANTS Streams, MaxChunk,
          LiveIds      \* client ids that have a request (lines for other ids take the unknown-id path)

VARIABLES
    rest,     \* bytes the peer has not delivered yet
    seen,     \* ghost: bytes read so far
    buf,      \* iauth_in (the evbuffer)
    dl,       \* ghost: lines handed to the dispatcher so far, [id, argv]
    slots,    \* ghost: argv[] slots written so far
    opts,     \* ghost: what dispatched lines found in the argv[] slot of their first absent parameter
    eof       \* read() returned 0: clean_exit, event_base_loopbreak()

rvars == <<rest, seen, buf, dl, slots, opts, eof>>

RInit == /\ rest \in Streams
         /\ seen = <<>> /\ buf = <<>> /\ dl = <<>> /\ slots = {} /\ opts = {} /\ eof = FALSE

\* Bug "drainfull": "drain the burst" - after a read() that filled the whole MaxChunk-byte buffer the callback
\* calls read() again BEFORE it parses anything (stdin is a blocking descriptor: it sits there until more bytes
\* or end of input arrive); the lines it already holds are delivered only after the next, shorter, read.
Deferred(n) == "drainfull" \in Bug /\ n = MaxChunk

\* iauth_read(), res > 0
Read(n) ==
    /\ ~eof /\ n >= 1 /\ n <= Len(rest)
    /\ LET chunk == SubSeq(rest, 1, n)
           r == BDrainL(buf \o chunk, <<>>, slots, opts, LiveIds)
       IN IF Deferred(n)
          THEN /\ buf' = buf \o chunk
               /\ UNCHANGED <<dl, slots, opts>>
               /\ seen' = seen \o chunk
          ELSE /\ buf' = (IF "droppartial" \in Bug THEN <<>> ELSE r.buf)
               /\ dl' = dl \o r.dl
               /\ slots' = r.slots
               /\ opts' = r.opts
               /\ seen' = seen \o chunk
    /\ rest' = Sub(rest, n + 1, Len(rest))
    /\ UNCHANGED eof

\* iauth_read(), res == 0: end of input, possibly with undelivered bytes still at the dead peer;
\* module_destructor() frees the evbuffer with whatever it holds
\* (Bug "drainfull": the read() that was waiting returns 0 with chunks in hand: they are parsed, then end of input)
Eof ==
    /\ ~eof
    /\ eof' = TRUE
    /\ buf' = <<>>
    /\ dl' = (IF "eoftail" \in Bug /\ buf # <<>> THEN dl \o BDrainL(Append(buf, LF), <<>>, {}, {}, LiveIds).dl
              ELSE IF "drainfull" \in Bug THEN dl \o BDrainL(buf, <<>>, {}, {}, LiveIds).dl
              ELSE dl)
    /\ UNCHANGED <<rest, seen, slots, opts>>

RNext == Eof \/ \E n \in 1..MaxChunk : Read(n)

RSpec == RInit /\ [][RNext]_rvars

\* ---- B refines A -----------------------------------------------------------------------------
\* chunking-invariance and prefix-closure in one: after any sequence of reads, and after end of input at any
\* byte, the dispatcher has seen exactly the contract's lines of the bytes read
DeliveredIsContract == dl = ADeliver(seen)
\* between reads the buffer holds exactly the unterminated tail (no line is stuck in it, none is lost)
BufferIsTail == ~eof => buf = ATail(seen)
\* promptness (liveness as safety): when a read has returned, every complete line received so far has been
\* delivered - the daemon never waits for more input (or for end of input) while it holds a complete line.
\* Whatever the size of the read: in particular one that fills the whole read buffer (n = MaxChunk).
NoLineWaiting == ~eof => (LFs(buf) = {} /\ Len(dl) = Len(ADeliver(seen)))
\* memory: every argv[] store is inside the array
ArgvInBounds == \A k \in slots : k < ARGV
\* memory / junk-independence: a handler that looks at the parameter after the last one present finds NULL -
\* never a pointer left behind by an earlier line of the same read (junk or not), never an uninitialised slot
AbsentParamIsNull == opts \subseteq {"null", "none"}
\* end of input is clean whatever was pending
EofClean == eof => buf = <<>>
=============================================================================
