"""C01 One verdict per announced client, then silence."""
from vlib import iauthrun as R

LEVEL = "model_checking"
TITLE = "one verdict per announced client, then silence"
OWN = {"P01_once"}


TRUST = {"modules": ("iauth_xquery", "iauth_class"),
         "rules": [{"name": "rt", "trust_username": "yes", "class": "ct"}]}


def RT(nth):
    """every nth behaviour is replayed a second time with a REAL 2 s request timeout: after all clients of a daemon process
    have been withdrawn the driver waits past every deadline and takes an empty step, which must print nothing (a timer of a
    finished / replaced request must never produce a verdict)"""
    def pick(behaviours):
        # re-announcements of an id that is still live first (the replaced request's timer is the interesting one),
        # then a thin slice of everything else; selection only - every replay is judged by TLC like any other
        def reann(b):
            live = set()
            for e in b:
                if e["e"] == "C":
                    if e["id"] in live:
                        return True
                    live.add(e["id"])
                elif e["e"] in ("D", "T") and not e.get("st"):
                    live.discard(e["id"])
            return False
        first = [b for b in behaviours if reann(b)]
        return first[::max(1, len(first) // (12 * nth))] + behaviours[::nth * 4]
    return [(pick, {"real_timeout": 2, "behaviours_per_process": 40})]


def plans(ctx):
    if ctx.tier == "quick":
        # re-announcement of live ids, D/T after a verdict, replies (stale tags) after a verdict, junk
        return [R.Plan("qr", "S_q1", emit_mod=115, max_inst=2, max_pw=1, stray=1, also=RT(20)),
                # iauth_class with a trust_username rule and ident answers that start with '~': the pre-registration hook
                # prints a U line and may re-enter the acceptance gate
                R.Plan("trust", "S_t1d", emit_mod=6, max_inst=1, max_pw=1, rich_sel="RichTilde", opts=TRUST)]
    return [R.Plan("qr", "S_q1", emit_mod=100, max_inst=2, max_pw=1, stray=2, junk=True, also=RT(40)),
            R.Plan("qr3", "S_t1d", emit_mod=20, max_inst=3, max_pw=1, stray=1),
            R.Plan("trust", "S_q1", emit_mod=10, max_inst=2, max_pw=1, stray=1, rich_sel="RichTilde", opts=TRUST),
            R.Plan("t1c", "S_t1c", emit_mod=12, max_inst=1, max_pw=2),
            R.Plan("two", "S_t1d", emit_mod=40, ids="Ids2", max_inst=1, max_pw=0, pw_on=False),
            R.Plan("sim", "S_t1a", simulate="num=60", depth=60, workers=8, rich=True, ids="Ids2", max_inst=8,
                   max_pw=3, stray=1, junk=True)]


def run(ctx):
    ctx.cov["rule"] = ("behaviours of the exhaustively explored composition B x A (ids re-announced while live, "
                       "disconnect / registered after the verdict, stale-tag replies), sampled 1/emit_mod, replayed on the "
                       "real daemon, every output line attributed to its step; TLC evaluates P01_once on the real trace: "
                       "<=1 verdict and <=1 soft-done per instance, nothing (client line or X line with its tag) names a "
                       "client after its verdict / D / T, verdicts only for live ids; distinct = distinct event sequences")
    ctx.assumptions += ["output is attributed to steps by the `-1 ? stats2` barrier (the daemon is single-threaded and "
                        "flushes every line)"]
    R.standard(ctx, plans(ctx), OWN, need=("accept_D", "accept_R", "kill", "softdone", "replies"))


def replay(ctx, body):
    R.replay_file(ctx, body, OWN)
