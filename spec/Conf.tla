-------------------------------- MODULE Conf --------------------------------
(***************************************************************************)
(* The configuration tree of iauthd-c (src/config.c): registration of      *)
(* settings by consumers, and the merge of a freshly parsed file into the  *)
(* live tree (conf_read -> conf_replace_value).  Property C15.              *)
(*                                                                         *)
(* Two layers:                                                             *)
(*   (A) the contract: what a consumer can observe after a load            *)
(*       (MergeDecl, MustNotify and the C15_* conjuncts), stated over the  *)
(*       registrations, the file just loaded and the dumps before/after;   *)
(*   (B) the implementation-shaped operators, named after the C functions  *)
(*       they transcribe (ReplaceValue = conf_replace_value, ...), working  *)
(*       on the same fields as the C structs (present / specified bits,    *)
(*       value, default, subtype, parsed).                                 *)
(* The behaviour spec at the end drives B along                            *)
(*     Register* ; Load ; Register* ; Load ; Load                           *)
(* and the C15_* action properties say that every step of B satisfies A.   *)
(*                                                                         *)
(* Representation.  A key is <<path, kind>>, path a tuple of (lower-cased) *)
(* names from the root, kind one of "s" (string), "i" (host/service pair,  *)
(* CONF_INADDR), "l" (string list), "o" (object); the set of an object is  *)
(* ordered by (strcasecmp(name), type), so the same name may occur once    *)
(* per kind.  A tree is a function from the keys of the existing nodes to  *)
(* records [pr, sp, v, d, s, z]:                                           *)
(*    pr  present   - the node was given by the last good file             *)
(*    sp  specified - a consumer registered the node                       *)
(*    v   value     - tuple of string tokens: <<x>>, <<host, service>>,    *)
(*                    the list elements, <<>> for an object                *)
(*    d   default   - same shape, as registered (zero before registration) *)
(*    s   subtype   - "plain" or the typed-string subtype; "" if no string *)
(*    z   parsed    - plain string: token of what parsed.p_string points   *)
(*                    to; typed string: "#<number>"; "" otherwise          *)
(* A string token is "~" for a NULL pointer and "=" \o text otherwise.     *)
(* A file is a function from keys (closed under parents, the root left     *)
(* out) to value tuples.  The harness installs a change hook on every node *)
(* it registers, right after registering it, and on the root.              *)
(***************************************************************************)
EXTENDS Naturals, Sequences, FiniteSets, TLC, Json

CONSTANTS NameOrd,     \* function: name -> position in strcasecmp order
          Universe,    \* keys that files and registrations of the model range over
          ValOpts,     \* key -> set of value tuples a file may give it
          RegOpts,     \* key -> set of [d |-> default tuple, s |-> subtype] a consumer may register it with
          MaxLoads,    \* number of loads in a behaviour
          RegPhases,   \* numbers of completed loads after which registrations may happen
          WithBad,     \* TRUE: failed loads are part of the behaviours
          Bug          \* {} = the code as it is; self-test switches that put a defect back into B:
                       \* "D13i" "D13l" "D16" (see DESIGN.md section 8), "keep" (leftovers are not removed),
                       \* "nomod" (a splice does not count as a membership change), "always" (lists always notify)

NULL == "~"
KindOrd == [s |-> 0, i |-> 1, l |-> 2, o |-> 3]      \* enum conf_node_type
RootKey == << <<>>, "o" >>
NoKey == << <<"-">>, "-" >>                           \* "source_ == NULL"

(* What the typed-string parsers make of the strings the checks use         *)
(* (conf_parse_interval / _integer / _boolean / _volume).                    *)
TypedVal ==
  [ interval |-> ("=1h" :> "#3600") @@ ("=60m" :> "#3600") @@ ("=90" :> "#90") @@ ("=1m30s" :> "#90")
                 @@ ("=0" :> "#0") @@ ("=5" :> "#5") @@ ("=0:0:5" :> "#5"),
    integer  |-> ("=5" :> "#5") @@ ("=0x5" :> "#5") @@ ("=7" :> "#7") @@ ("=0" :> "#0") @@ ("=007" :> "#7"),
    boolean  |-> ("=yes" :> "#1") @@ ("=on" :> "#1") @@ ("=1" :> "#1") @@ ("=no" :> "#0") @@ ("=off" :> "#0"),
    volume   |-> ("=1k" :> "#1024") @@ ("=1024" :> "#1024") @@ ("=2k" :> "#2048") @@ ("=0" :> "#0") ]
ParseOk(sub, val) == sub \in DOMAIN TypedVal /\ val \in DOMAIN TypedVal[sub]
ParseVal(sub, val) == TypedVal[sub][val]

-----------------------------------------------------------------------------
(* Keys and paths *)
Range(f) == {f[x] : x \in DOMAIN f}
PathOf(k) == k[1]
KindOf(k) == k[2]
NameOf(k) == k[1][Len(k[1])]
Parent(k) == << SubSeq(k[1], 1, Len(k[1]) - 1), "o" >>
IsPrefix(p, q) == Len(p) <= Len(q) /\ \A j \in 1..Len(p) : p[j] = q[j]
ChildrenOf(S, p) == {k \in S : Len(k[1]) = Len(p) + 1 /\ IsPrefix(p, k[1])}
DescendantsOf(S, p) == {k \in S : Len(k[1]) > Len(p) /\ IsPrefix(p, k[1])}

(* conf_object_cmp on two siblings *)
Cmp(a, b) ==
  IF NameOrd[NameOf(a)] # NameOrd[NameOf(b)]
  THEN (IF NameOrd[NameOf(a)] < NameOrd[NameOf(b)] THEN 0 - 1 ELSE 1)
  ELSE IF KindOrd[KindOf(a)] # KindOrd[KindOf(b)]
  THEN (IF KindOrd[KindOf(a)] < KindOrd[KindOf(b)] THEN 0 - 1 ELSE 1)
  ELSE 0

RECURSIVE SortKeys(_)
SortKeys(S) ==                      \* set_first / set_next order of a set of siblings
  IF S = {} THEN <<>>
  ELSE LET m == CHOOSE x \in S : \A y \in S \ {x} : Cmp(x, y) < 0
       IN <<m>> \o SortKeys(S \ {m})

RECURSIVE DumpOrder(_, _)
DumpOrder(S, p) ==                  \* pre-order walk below the object with path p
  LET kids == SortKeys(ChildrenOf(S, p))
      F[j \in 0..Len(kids)] ==
        IF j = 0 THEN <<>>
        ELSE F[j - 1] \o <<kids[j]>> \o (IF KindOf(kids[j]) = "o" THEN DumpOrder(S, PathOf(kids[j])) ELSE <<>>)
  IN F[Len(kids)]

-----------------------------------------------------------------------------
(* Nodes *)
ZeroVal(kind) == CASE kind = "s" -> <<NULL>> [] kind = "i" -> <<NULL, NULL>> [] OTHER -> <<>>
ZeroSub(kind) == IF kind = "s" THEN "plain" ELSE ""
ZeroZ(kind)   == IF kind = "s" THEN NULL ELSE ""

(* a node as conf_parse_get_child makes it in the scratch tree (xmalloc zeroes) *)
FileNode(kind, val) ==
  [pr |-> TRUE, sp |-> FALSE, v |-> val, d |-> ZeroVal(kind), s |-> ZeroSub(kind), z |-> ZeroZ(kind)]
(* a node as conf_register_node makes it when the tree has none *)
NewRegNode(kind) ==
  [pr |-> FALSE, sp |-> TRUE, v |-> ZeroVal(kind), d |-> ZeroVal(kind), s |-> ZeroSub(kind), z |-> ZeroZ(kind)]

RootNode == [pr |-> FALSE, sp |-> TRUE, v |-> <<>>, d |-> <<>>, s |-> "", z |-> ""]
EmptyTree == RootKey :> RootNode

(* the node carries a hook: the harness hooks what it registered, and the root *)
Hooked(k, n) == n.sp

-----------------------------------------------------------------------------
(***************************************************************************)
(* (B)  The implementation, function by function.                          *)
(***************************************************************************)

(* conf_parse_string_value(cnode), entered with the new raw value (or NULL) *)
(* already stored in n.v; hooked = "cnode->base.hook is set".  Result: the   *)
(* node and whether the hook ran.                                            *)
ParseStringValue(n, hooked) ==
  LET orig == n.v[1]
      val  == IF orig = NULL THEN n.d[1] ELSE orig            \* xstrdup(def_value)
  IN IF val = NULL
     THEN \* memset(parsed, 0); "if (orig_value && hook)" - orig_value is NULL here, so this never fires
          [n |-> [n EXCEPT !.v = <<NULL>>, !.z = IF n.s = "plain" THEN NULL ELSE "#0"],
           h |-> hooked /\ orig # NULL]
     ELSE IF n.s = "plain"
     THEN \* res = !parsed.p_string || strcmp(value, parsed.p_string)
          [n |-> [n EXCEPT !.v = <<val>>, !.z = val],
           h |-> hooked /\ (n.z = NULL \/ n.z # val)]
     ELSE IF ~ParseOk(n.s, val)
     THEN \* warning; parsed keeps the previous number
          [n |-> [n EXCEPT !.v = <<val>>], h |-> FALSE]
     ELSE \* memcmp(&parsed, &newval)
          [n |-> [n EXCEPT !.v = <<val>>, !.z = ParseVal(n.s, val)],
           h |-> hooked /\ ParseVal(n.s, val) # n.z]

(* conf_set_string_list_value(node, new_value): result as above *)
SetStringListValue(n, new, hooked) ==
  IF n.v = new THEN [n |-> n, h |-> hooked /\ "always" \in Bug]
  ELSE [n |-> [n EXCEPT !.v = new], h |-> hooked]

(* set_remove(&parent->contents, node, 0): conf_object_cleanup clears an object's contents too *)
RemoveNode(t, k) ==
  LET gone == {k} \cup (IF KindOf(k) = "o" THEN DescendantsOf(DOMAIN t, PathOf(k)) ELSE {})
  IN [x \in DOMAIN t \ gone |-> t[x]]

(* the "not currently present: splice it over" branch: the scratch node with everything below it *)
Splice(t, sk, src) ==
  LET moved == {sk} \cup (IF KindOf(sk) = "o" THEN DescendantsOf(DOMAIN src, PathOf(sk)) ELSE {})
  IN [x \in moved |-> FileNode(KindOf(x), src[x])] @@ t

AppendIf(h, c, k) == IF c THEN Append(h, k) ELSE h

(* conf_replace_value(target_, source_).  ws = [t |-> live tree, h |-> hooks run so far];       *)
(* k = key of the target (in DOMAIN ws.t); src = the scratch tree (a file); sk = key of the      *)
(* source node in src, or NoKey for source_ == NULL.  Result [t, h, ret], ret = the C return     *)
(* value (1: the target is no longer in its parent's set).                                       *)
RECURSIVE ReplaceValue(_, _, _, _), WalkBoth(_, _, _, _, _), RevertAll(_, _, _, _)

ReplaceValue(ws, k, src, sk) ==
  LET has  == sk # NoKey
      n    == ws.t[k]
      kind == KindOf(k)
  IN
  IF has /\ KindOf(sk) # kind
  THEN \* type mismatch: drop the target, put the source node in its place.  Both callers find the
       \* target with the comparator that includes the type, so this branch is dead (TypeBranchDead).
       [t |-> Splice(RemoveNode(ws.t, k), sk, src), h |-> ws.h, ret |-> TRUE]
  ELSE
  LET body ==
        CASE kind = "s" ->
               LET orig == n.v[1]
                   r == ParseStringValue([n EXCEPT !.v = <<IF has THEN src[sk][1] ELSE NULL>>], Hooked(k, n))
                   \* "conf_parse_string_value() cannot see that a value was withdrawn"
                   h2 == orig # NULL /\ r.n.v[1] = NULL /\ Hooked(k, n) /\ "D16" \notin Bug
               IN [t |-> [ws.t EXCEPT ![k] = r.n], h |-> AppendIf(AppendIf(ws.h, r.h, k), h2, k)]
          [] kind = "i" ->
               LET moved == IF has THEN src[sk] ELSE <<NULL, NULL>>
                   nv == [j \in 1..2 |-> IF moved[j] = NULL THEN n.d[j] ELSE moved[j]]
                   \* strcasecmp; the value pools hold no strings that differ in case only
                   changed == \E j \in 1..2 : nv[j] # n.v[j]
               IN [t |-> [ws.t EXCEPT ![k].v = nv], h |-> AppendIf(ws.h, changed /\ Hooked(k, n), k)]
          [] kind = "l" ->
               LET r == SetStringListValue(n, IF has THEN src[sk] ELSE n.d, Hooked(k, n))
               IN [t |-> [ws.t EXCEPT ![k] = r.n], h |-> AppendIf(ws.h, r.h, k)]
          [] kind = "o" ->
               LET tl == SortKeys(ChildrenOf(DOMAIN ws.t, PathOf(k)))
                   w == IF has
                        THEN WalkBoth(ws, tl, SortKeys(ChildrenOf(DOMAIN src, PathOf(sk))), src, FALSE)
                        ELSE IF n.pr THEN RevertAll(ws, tl, src, FALSE)
                        ELSE [t |-> ws.t, h |-> ws.h, mod |-> FALSE]
               IN [t |-> w.t, h |-> AppendIf(w.h, w.mod /\ Hooked(k, n), k)]
      t1 == [body.t EXCEPT ![k].pr = has]                \* target_->present = source_ != NULL
  IN IF ~has /\ ~n.sp /\ k # RootKey /\ "keep" \notin Bug
     THEN [t |-> RemoveNode(t1, k), h |-> body.h, ret |-> TRUE]
     ELSE [t |-> t1, h |-> body.h, ret |-> FALSE]

(* the while (tnode || snode) loop of the CONF_OBJECT case; tl / sl = what is left of both lists *)
WalkBoth(ws, tl, sl, src, mod) ==
  IF tl = <<>> /\ sl = <<>> THEN [t |-> ws.t, h |-> ws.h, mod |-> mod]
  ELSE
  LET res == IF tl # <<>> /\ sl # <<>> THEN Cmp(Head(tl), Head(sl)) ELSE IF tl # <<>> THEN 0 - 1 ELSE 1
  IN IF res > 0
     THEN \* not currently present: splice it over
          WalkBoth([t |-> Splice(ws.t, Head(sl), src), h |-> ws.h], tl, Tail(sl), src, mod \/ "nomod" \notin Bug)
     ELSE IF res < 0
     THEN \* no longer present: revert to default value
          LET r == ReplaceValue(ws, Head(tl), src, NoKey)
          IN WalkBoth([t |-> r.t, h |-> r.h], Tail(tl), sl, src, mod \/ r.ret)
     ELSE \* present in both: update value (the return value is ignored)
          LET r == ReplaceValue(ws, Head(tl), src, Head(sl))
          IN WalkBoth([t |-> r.t, h |-> r.h], Tail(tl), Tail(sl), src, mod)

(* "else if (target_->present)": revert every child *)
RevertAll(ws, tl, src, mod) ==
  IF tl = <<>> THEN [t |-> ws.t, h |-> ws.h, mod |-> mod]
  ELSE LET r == ReplaceValue(ws, Head(tl), src, NoKey)
       IN RevertAll([t |-> r.t, h |-> r.h], Tail(tl), src, mod \/ r.ret)

(* conf_read(), successful: conf_replace_value(&conf_root.base, &parse.root.base) *)
MergeImpl(tree, file) ==
  LET r == ReplaceValue([t |-> tree, h |-> <<>>], RootKey, file, RootKey)
  IN [t |-> r.t, h |-> r.h]

(* conf_register_node: adopt the node a file created, or make a new one *)
RegisterNode(t, k) ==
  IF k \in DOMAIN t THEN [t EXCEPT ![k].sp = TRUE] ELSE (k :> NewRegNode(KindOf(k))) @@ t

(* conf_register_string / _inaddr / _string_list(_sv) / _object.  o = [d |-> default, s |-> subtype]. *)
(* No hook can run: the consumer installs it on the returned node.                                     *)
RegisterImpl(t, k, o) ==
  LET t1 == RegisterNode(t, k)
      n  == t1[k]
  IN CASE KindOf(k) = "s" ->
            \* the union is re-read under the new subtype: zero stays zero, a pointer becomes garbage
            LET z1 == IF o.s = n.s THEN n.z ELSE IF n.z = NULL THEN "#0" ELSE "#?"
                r == ParseStringValue([n EXCEPT !.s = o.s, !.d = o.d, !.z = z1], FALSE)
            IN [t1 EXCEPT ![k] = r.n]
       [] KindOf(k) = "i" ->
            [t1 EXCEPT ![k].d = o.d,
                       ![k].v = [j \in 1..2 |-> IF n.v[j] = NULL /\ "D13i" \notin Bug THEN o.d[j] ELSE n.v[j]]]
       [] KindOf(k) = "l" ->
            [t1 EXCEPT ![k].d = o.d,
                       ![k].v = IF (IF "D13l" \in Bug THEN n.v # <<>> ELSE n.pr) THEN n.v ELSE o.d]
       [] KindOf(k) = "o" -> t1

-----------------------------------------------------------------------------
(***************************************************************************)
(* (A)  The contract (property C15).  reg = the registrations made so far:  *)
(* key -> [d, s].  pre / post = the tree before / after the step, of which   *)
(* only existence, value (v) and - for typed strings - parsed number (z)    *)
(* are looked at.  hooks = the hook log of the step.  last = <<>> or <<f>>, *)
(* f the last successfully loaded file.                                      *)
(***************************************************************************)

(* "last good file plus defaults": what the tree has to hold after loading file *)
MergeDecl(reg, file) ==
  [k \in DOMAIN reg \cup DOMAIN file |-> IF k \in DOMAIN file THEN file[k] ELSE reg[k].d]

IsTyped(reg, k) == KindOf(k) = "s" /\ k \in DOMAIN reg /\ reg[k].s # "plain"

(* each registered setting equals the value given in that file, or its registered default *)
ValuesOK(reg, file, post) ==
  LET want == MergeDecl(reg, file)
  IN \A k \in DOMAIN reg :
     /\ k \in DOMAIN post
     /\ post[k].v = want[k]
     /\ (IsTyped(reg, k) /\ ParseOk(reg[k].s, post[k].v[1])) => post[k].z = ParseVal(reg[k].s, post[k].v[1])

(* unregistered leftovers of earlier files are gone *)
LeftoversGone(reg, file, post) == DOMAIN post \subseteq DOMAIN reg \cup DOMAIN file \cup {RootKey}

(* what the file gives is in the tree (a later registration must find it) *)
FileNodesOK(file, post) == \A k \in DOMAIN file : k \in DOMAIN post /\ post[k].v = file[k]

SameObservable(reg, pre, post) ==
  /\ DOMAIN pre = DOMAIN post
  /\ \A k \in DOMAIN pre : pre[k].v = post[k].v /\ (IsTyped(reg, k) => pre[k].z = post[k].z)

(* loading the same content twice changes nothing and notifies nobody *)
IdempotentOK(reg, file, last, pre, post, hooks) ==
  last = <<file>> => hooks = <<>> /\ SameObservable(reg, pre, post)

(* the own effective value of a registered setting changed.  A typed string counts as changed *)
(* only if text and number both changed ("1h" -> "60m" may or may not notify).                 *)
EffChanged(reg, k, pre, post) ==
  /\ pre[k].v # post[k].v
  /\ IsTyped(reg, k) => pre[k].z # post[k].z

(* hooks that have to run *)
MustNotify(reg, pre, post) ==
  {k \in DOMAIN reg : KindOf(k) # "o" /\ k \in DOMAIN pre /\ k \in DOMAIN post /\ EffChanged(reg, k, pre, post)}
  \cup
  {k \in {x \in DOMAIN reg : KindOf(x) = "o"} \cup {RootKey} :
      ChildrenOf(DOMAIN pre, PathOf(k)) # ChildrenOf(DOMAIN post, PathOf(k))}

SettingHookOK(reg, pre, post, hooks) ==
  \A k \in MustNotify(reg, pre, post) : KindOf(k) # "o" => k \in Range(hooks)
ObjectHookOK(reg, pre, post, hooks) ==
  \A k \in MustNotify(reg, pre, post) : KindOf(k) = "o" => k \in Range(hooks)

(* a failed load leaves the last good state *)
FailedLoadOK(reg, pre, post, hooks) == hooks = <<>> /\ SameObservable(reg, pre, post)

(* registration, before or after loading: the setting takes the file's value if the last good *)
(* file gives one, else its default; nothing else moves                                         *)
RegisterOK(reg, last, pre, post, k) ==
  /\ DOMAIN post = DOMAIN pre \cup {k}
  /\ \A x \in DOMAIN pre \ {k} : post[x].v = pre[x].v
  /\ post[k].v = IF last # <<>> /\ k \in DOMAIN last[1] THEN last[1][k] ELSE reg[k].d
  /\ (IsTyped(reg, k) /\ ParseOk(reg[k].s, post[k].v[1])) => post[k].z = ParseVal(reg[k].s, post[k].v[1])

-----------------------------------------------------------------------------
(***************************************************************************)
(* Behaviours:  Register* ; Load ; Register* ; Load ; Load  (MaxLoads = 3,  *)
(* RegPhases = {0, 1}), B's state in live, the contract's bookkeeping in    *)
(* reg / last.                                                               *)
(***************************************************************************)
VARIABLES live,    \* B: the live tree
          reg,     \* registrations so far
          last,    \* <<>> or <<last good file>>
          phase,   \* successful loads so far
          ev,      \* the step just taken
          hooks,   \* hooks run by the step just taken (sequence of keys)
          hist     \* the events so far (ghost; hidden by the view)
vars == <<live, reg, last, phase, ev, hooks, hist>>
View == <<live, reg, last, phase>>

RECURSIVE FilesOver(_)
FilesOver(S) ==
  IF S = {} THEN {<<>>}
  ELSE LET k == CHOOSE x \in S : TRUE
       IN {(k :> v) @@ g : v \in ValOpts[k], g \in FilesOver(S \ {k})}
ParentClosed(S) == \A k \in S : Parent(k) = RootKey \/ Parent(k) \in S
Files == UNION {FilesOver(S) : S \in {T \in SUBSET Universe : ParentClosed(T)}}

FileEntries(f) == {[p |-> k[1], k |-> k[2], v |-> f[k]] : k \in DOMAIN f}

Init ==
  /\ live = EmptyTree
  /\ reg = <<>>
  /\ last = <<>>
  /\ phase = 0
  /\ ev = [op |-> "init"]
  /\ hooks = <<>>
  /\ hist = <<>>

Register(k, o) ==
  /\ phase \in RegPhases
  /\ k \notin DOMAIN reg
  /\ Parent(k) = RootKey \/ Parent(k) \in DOMAIN reg
  /\ live' = RegisterImpl(live, k, o)
  /\ reg' = (k :> o) @@ reg
  /\ hooks' = <<>>
  /\ ev' = [op |-> "reg", p |-> k[1], k |-> k[2], d |-> o.d, s |-> o.s]
  /\ UNCHANGED <<last, phase>>

Load(f) ==
  /\ phase < MaxLoads
  /\ LET r == MergeImpl(live, f) IN live' = r.t /\ hooks' = r.h
  /\ last' = <<f>>
  /\ phase' = phase + 1
  /\ ev' = [op |-> "load", f |-> FileEntries(f)]
  /\ UNCHANGED reg

LoadBad ==         \* conf_read() fails before conf_replace_value(): nothing happens
  /\ WithBad
  /\ phase \in 1..(MaxLoads - 1)
  /\ ev.op # "bad"
  /\ ev' = [op |-> "bad"]
  /\ hooks' = <<>>
  /\ UNCHANGED <<live, reg, last, phase>>

Next ==
  /\ \/ \E k \in Universe : \E o \in RegOpts[k] : Register(k, o)
     \/ \E f \in Files : Load(f)
     \/ LoadBad
  /\ hist' = Append(hist, ev')

Spec == Init /\ [][Next]_vars

(* one complete behaviour per explored transition (see the builder guide) *)
Emit == PrintT("@@E" \o ToJson(hist'))

IsLoad == ev'.op = "load" /\ phase' = phase + 1
LoadedFile == last'[1]

(* B satisfies A, conjunct by conjunct (action properties: checked on every transition) *)
BSat_C15_Values     == [][IsLoad => ValuesOK(reg, LoadedFile, live')]_vars
BSat_C15_Leftovers  == [][IsLoad => LeftoversGone(reg, LoadedFile, live')]_vars
BSat_C15_FileNodes  == [][IsLoad => FileNodesOK(LoadedFile, live')]_vars
BSat_C15_Idempotent == [][IsLoad => IdempotentOK(reg, LoadedFile, last, live, live', hooks')]_vars
BSat_C15_SettingHook == [][IsLoad => SettingHookOK(reg, live, live', hooks')]_vars
BSat_C15_ObjectHook == [][IsLoad => ObjectHookOK(reg, live, live', hooks')]_vars
BSat_C15_Register   == [][ev'.op = "reg" /\ reg' # reg =>
                       \E k \in DOMAIN reg' \ DOMAIN reg : RegisterOK(reg', last, live, live', k)]_vars

(* B-level invariants *)
TypeOK ==
  /\ RootKey \in DOMAIN live
  /\ \A k \in DOMAIN live \ {RootKey} : Parent(k) \in DOMAIN live          \* a tree
  /\ \A k \in DOMAIN live : live[k].pr \/ live[k].sp                       \* nothing else is kept
  /\ \A k \in DOMAIN live : live[k].sp <=> (k \in DOMAIN reg \/ k = RootKey)
  /\ phase = 0 => \A k \in DOMAIN live : ~live[k].pr
  /\ phase > 0 => \A k \in DOMAIN live : live[k].pr <=> (k = RootKey \/ k \in DOMAIN last[1])
(* a plain string's parsed pointer is NULL or its own value: never stale *)
ParsedFresh ==
  \A k \in DOMAIN live : (KindOf(k) = "s" /\ live[k].s = "plain") => live[k].z \in {NULL, live[k].v[1]}

=============================================================================
