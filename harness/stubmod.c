/* stubmod.c - stub iauthd module for C20 (module load / post-init / unload order).
 *
 * Compiled in eight variants (ctx.build.stubmod(variant)): with all three entry points, without
 * module_post_init (-DNO_POSTINIT), without module_destructor (-DNO_DTOR), without
 * module_constructor (-DNO_CTOR), and every combination -- all three entry points are optional
 * in the real project and src/module.c has its own paths for modules that lack them.  A module
 * without a constructor cannot call module_depends(): it declares nothing (a "plain library of
 * helper functions"), writes no ctor-begin / ctor-end event, and learns its own name from the
 * file it was loaded from (dladdr) instead of from the constructor's argument.  Each variant is
 * COPIED once per module name (m1 ... m6), so that every copy has its own inode, statics and
 * dlopen handle.  The daemon under test is the real iauthd-c; the
 * subject is src/module.c.  Nothing here judges anything: the stub only declares what its
 * dependency file says and records that its entry points were called.
 *
 * Environment:
 *   VERIF_MODDEPS  file with one line per module:  "<name>: <item> <item> ..."; the constructor
 *                  of <name> walks its items in order:
 *                      dep      module_depends("dep", NULL)
 *                      ~dep     module_antidepends("dep", NULL)   (the same edge declared by its target)
 *                      !        module_is_backend()               (not part of C20's contract)
 *   VERIF_MODLOG   event log, one ndjson line per event, each written with a single
 *                  write(2) on an O_APPEND descriptor:
 *                      {"e":"ctor-begin","m":"m1"}  {"e":"ctor-end","m":"m1"}
 *                      {"e":"post-init","m":"m1"}   {"e":"dtor","m":"m1"}
 *                      {"e":"running"}
 *   VERIF_MODSTOP  if set: the first stub of the process that gets control arms a zero-delay
 *                  libevent timer: a module_constructor, or -- in the variants without one --
 *                  the shared object's ELF constructor, which dlopen() runs (a case may have no
 *                  module with a post-init, and its first-loaded or only module may have no
 *                  module_constructor; main() creates ev_base before it loads any module).
 *                  Its callback can only run inside main()'s event_base_dispatch(), i.e. after
 *                  start-up has completed and the signal handlers are installed; it logs
 *                  "running" and sends the daemon its own documented clean-stop signal
 *                  (SIGHUP), so that a daemon without the iauth module (which would otherwise
 *                  run forever) shuts down through the normal exit path and runs the
 *                  destructors.
 */
#ifndef _GNU_SOURCE
#define _GNU_SOURCE
#endif
#include <dlfcn.h>
#include <fcntl.h>
#include <signal.h>
#include <stdio.h>
#include <stdlib.h>
#include <string.h>
#include <sys/time.h>
#include <unistd.h>
#include <event2/event.h>

struct module;
void module_depends(const char *name, ...);
void module_antidepends(const char *name, ...);
void module_is_backend(void);
const char *module_get_name(const struct module *mod);
extern struct event_base *ev_base;

static char self_name[64];

static void ev(const char *what, const char *n)
{
    char buf[160];
    const char *path = getenv("VERIF_MODLOG");
    int fd, len;

    if (!path)
        return;
    if (n)
        len = snprintf(buf, sizeof buf, "{\"e\":\"%s\",\"m\":\"%s\"}\n", what, n);
    else
        len = snprintf(buf, sizeof buf, "{\"e\":\"%s\"}\n", what);
    fd = open(path, O_WRONLY | O_APPEND | O_CREAT, 0644);
    if (fd < 0)
        return;
    if (write(fd, buf, len) != len)
        _exit(97);
    close(fd);
}

static void running_cb(evutil_socket_t fd, short what, void *arg)
{
    (void)fd; (void)what; (void)arg;
    ev("running", NULL);
    kill(getpid(), SIGHUP);
}

static void arm_stop(void)
{
    if (getenv("VERIF_MODSTOP") && !getenv("VERIF_MODSTOP_ARMED")) {
        struct timeval tv = { 0, 0 };
        setenv("VERIF_MODSTOP_ARMED", "1", 1);      /* process-wide: the copies share no statics */
        event_base_once(ev_base, -1, EV_TIMEOUT, running_cb, NULL, &tv);
    }
}

#ifndef NO_CTOR
__attribute__((visibility("default"))) void module_constructor(const char *name)
{
    FILE *f;
    char line[512];

    strncpy(self_name, name, sizeof(self_name) - 1);
    ev("ctor-begin", name);
    arm_stop();
    f = fopen(getenv("VERIF_MODDEPS") ? getenv("VERIF_MODDEPS") : "/nonexistent", "r");
    while (f && fgets(line, sizeof line, f)) {
        char *c = strchr(line, ':'), *sv, *t;
        if (!c)
            continue;
        *c = 0;
        if (strcmp(line, name))
            continue;
        /* constructors nest (module_depends loads the dependency): strtok_r, own buffer */
        for (t = strtok_r(c + 1, " \n", &sv); t; t = strtok_r(NULL, " \n", &sv)) {
            if (!strcmp(t, "!"))
                module_is_backend();
            else if (t[0] == '~')
                module_antidepends(strdup(t + 1), NULL);   /* the loader keeps the pointer */
            else
                module_depends(strdup(t), NULL);
        }
        break;
    }
    if (f)
        fclose(f);
    ev("ctor-end", name);
}
#else
/* No module_constructor: nothing of this module runs while the loader loads it, except what
 * dlopen() itself runs.  The ELF constructor below is not an entry point of the loader's
 * protocol and writes no event; it only (a) learns which module this copy is -- the file name
 * it was loaded from, "<dir>/m3.so" or the pool file "m3.<variant>.so" behind that link, up
 * to the first dot -- so that post-init / dtor events can name it, and (b) arms the stop timer
 * when no other stub has done so yet. */
__attribute__((constructor)) static void stub_loaded(void)
{
    Dl_info info;
    const char *b;
    size_t n;

    if (dladdr((void *)&stub_loaded, &info) && info.dli_fname) {
        b = strrchr(info.dli_fname, '/');
        b = b ? b + 1 : info.dli_fname;
        n = strcspn(b, ".");
        if (n >= sizeof self_name)
            n = sizeof self_name - 1;
        memcpy(self_name, b, n);
        self_name[n] = 0;
    }
    arm_stop();
}
#endif

#ifndef NO_POSTINIT
__attribute__((visibility("default"))) void module_post_init(struct module *self)
{
    /* like the destructor: the event names the module whose code this is (the name its own
     * constructor was given or, without one, the name of the file this copy was loaded from),
     * so that "its post-init ran" means this module's entry point */
    (void)self;
    ev("post-init", self_name);
}
#endif

#ifndef NO_DTOR
__attribute__((visibility("default"))) void module_destructor(void)
{
    ev("dtor", self_name);
}
#endif
