------------------------------ MODULE MCIAuth ------------------------------
(***************************************************************************)
(* Model-checking harness: IAuth.tla (B) composed with the contract        *)
(* monitor IAuthContract.tla (A), a bounded environment that generates     *)
(* every kind of input line, and a history ghost (hidden by the VIEW) from *)
(* which TLC prints one complete behaviour per explored transition.        *)
(***************************************************************************)
EXTENDS IAuth, Json

CONSTANTS
    Ids,          \* client ids the environment uses
    MaxInst,      \* announcements per id
    MaxPw,        \* password lines per instance
    StrayLevel,   \* 0: no stray replies; 1: stale/unknown/malformed tags and unknown services with two reply kinds; 2: all kinds
    JunkOn,       \* BOOLEAN: junk lines
    Rich,         \* BOOLEAN: text pools with boundary lengths (simulation) instead of one text per field
    PwOn,         \* BOOLEAN: password lines
    RichSel,      \* subset of {"data", "reply", "modes", "shapes"}: which pools are rich although Rich = FALSE
    Script,       \* <<>> (free environment) or a sequence of sets of event kinds: step k may only take an event whose
                  \* kind is in Script[k] (straight-line histories that enumerate the rich text pools exhaustively)
    EmitMod,      \* print every EmitMod-th behaviour (1 = all, 0 = none)
    SimDepth      \* simulation mode: length at which a behaviour is printed (once)

VARIABLES
    cst,          \* contract state
    cviol,        \* conjuncts violated by the last step
    inst,         \* announcements so far, per id
    npw,          \* password lines in the current instance, per id
    oldtags,      \* earlier instances, per id: <<routing tag, services that still owed it an answer when it ended>>
                  \* (the second component makes "a late reply genuinely meant for a departed instance" a state of its own,
                  \* so that the per-transition behaviours contain such histories and not only their shortest stand-ins)
    repl,         \* per id: the current instance was announced while the previous one was still live (the request was
                  \* replaced inside the table instead of inserted afresh).  B's state does not depend on it, the code's
                  \* path does; keeping it in the state makes "everything that can follow a replacement" a part of the
                  \* graph of its own, so the per-transition behaviours contain replacement histories and not only their
                  \* withdraw-then-announce stand-ins
    hist          \* history ghost: sequence of [e |-> event, o |-> output, n |-> in use]

A == INSTANCE IAuthContract

mcvars == <<serial, req, slots, ev, out, cst, cviol, inst, npw, oldtags, repl, hist>>

ContractCfg == [svcs |-> IF XQ THEN Services ELSE << >>, required |-> IauthFlags, timeout |-> TimeoutOn, xq |-> XQ]

MCInit == /\ Init
          /\ cst = A!CInit(ContractCfg)
          /\ cviol = {}
          /\ inst = [i \in Ids |-> 0]
          /\ npw = [i \in Ids |-> 0]
          /\ oldtags = [i \in Ids |-> {}]
          /\ repl = [i \in Ids |-> FALSE]
          /\ hist = <<>>

SvcNameSet == IF XQ THEN {Services[n].name : n \in 1..Len(Services)} ELSE {"a1.svc"}

\* texts: <<ref, full length>>; the rich pools straddle the documented limits
RichP(k) == Rich \/ k \in RichSel
NickPool  == IF RichP("data") THEN {<<"n1", 5>>, <<"nb", 30>>, <<"nc", 31>>, <<"nd", 45>>} ELSE {<<"n1", 5>>}
HostPool  == IF RichP("data") THEN {<<"h1", 12>>, <<"hb", 63>>, <<"hc", 64>>, <<"hd", 80>>} ELSE {<<"h1", 12>>}
\* "~.." = an ident answer that is itself marked untrusted (a trust_username rule of iauth_class upgrades it)
IdentPool == IF RichP("data") THEN {<<"i1", 4>>, <<"ib", 10>>, <<"ic", 11>>, <<"id", 15>>, <<"~j1", 6>>}
             ELSE IF "tilde" \in RichSel THEN {<<"i1", 4>>, <<"~j1", 6>>} ELSE {<<"i1", 4>>}
\* <<text, starts with ~>>
UserPool  == IF RichP("data") THEN {<< <<"c1", 6>>, 0>>, << <<"cb", 9>>, 0>>, << <<"cc", 10>>, 0>>, << <<"cd", 13>>, 0>>,
                           << <<"~e", 8>>, 1>>, << <<"~f", 10>>, 1>>, << <<"~g", 12>>, 1>>}
             ELSE {<< <<"c1", 6>>, 0>>}
RealPool  == IF RichP("data") THEN {<<"r1", 11>>, <<"spb", 50>>, <<"spc", 51>>, <<"spd", 70>>} ELSE {<<"r1", 11>>}
CredPool  == IF RichP("data") THEN {<<"p1", 10>>, <<"pb", 511>>, <<"pc", 512>>, <<"pd", 600>>} ELSE {<<"p1", 10>>}
\* "as.." = account words with a ":stamp" suffix (the driver writes name:digits:digits)
AcctPool  == IF RichP("reply") THEN {<<"ac1", 8>>, <<"as2", 20>>, <<"acb", 64>>, <<"asb", 64>>, <<"acc", 65>>, <<"acd", 90>>}
             ELSE {<<"as1", 14>>}
\* <<"", 0>> = the empty text ("NO <message>", "AGAIN <text>", "MORE <text>": the text may be empty)
TextPool  == IF RichP("reply") THEN {<<"t1", 9>>, <<"spt", 60>>, <<"spu", 200>>, <<"", 0>>} ELSE {<<"t1", 9>>}
TrailPool == IF RichP("reply") THEN {"", " tr ailing :words"} ELSE {""}

ModeChoices == IF RichP("modes") THEN { <<"+", "x">>, <<"+", "!">>, <<"-", "!">>, <<"+", "x", "!">>, <<"-", "x", "+", "!">>, <<"+", "!", "-", "!">>, <<"+">> }
               ELSE { <<"+", "x">>, <<"+", "!">>, <<"-", "!">> }
RECURSIVE ModeName(_)
ModeName(m) == IF m = <<>> THEN "" ELSE m[1] \o ModeName(Tail(m))

DataEvents(i) ==
    { [e |-> "N", id |-> i, host |-> t] : t \in HostPool } \cup { [e |-> "d", id |-> i] }
    \cup { [e |-> "u", id |-> i, ident |-> t] : t \in IdentPool } \cup { [e |-> "u0", id |-> i] }
    \cup { [e |-> "n", id |-> i, nick |-> t] : t \in NickPool }
    \cup { [e |-> "U", id |-> i, user |-> u[1], tilde |-> u[2], real |-> t] : u \in UserPool, t \in RealPool }
    \cup { [e |-> "H", id |-> i] }

PasswordEvents(i) ==
    IF ~PwOn THEN {}
    ELSE { [e |-> "P", id |-> i, shape |-> "ok", modes |-> m, cred |-> c, raw |-> <<"P" \o ModeName(m) \o c[1], 0>>]
             : m \in ModeChoices, c \in CredPool }
         \cup { [e |-> "P", id |-> i, shape |-> sh, modes |-> <<>>, cred |-> c, raw |-> <<"P" \o sh \o c[1], 0>>]
             : sh \in (IF RichP("shapes") THEN {"nomode", "nosp", "nosep"} ELSE {"nomode"}), c \in CredPool }

ReplyKinds == {"OK", "OKA", "OKE", "NO", "AGAIN", "MORE", "UNL", "JUNK"}
\* oid: the client the environment means the reply for; st = 1 marks lines the daemon must ignore entirely
ReplyEvs(s, tag, k, oid, st) ==
                         { [e |-> "X", svc |-> s, tag |-> tag, kind |-> k, acct |-> a, text |-> t, trail |-> tr, oid |-> oid, st |-> st]
                           : a \in (IF k = "OKA" THEN AcctPool ELSE {<<"as1", 14>>}),
                             t \in (IF k \in {"NO", "AGAIN", "MORE"} THEN TextPool \cup (IF k = "NO" THEN {<<"", 0>>} ELSE {})
                                   ELSE {<<"t1", 9>>}),
                             tr \in (IF k = "OKA" THEN TrailPool ELSE {""}) }

\* replies a service that is awaited may send (all kinds), to the current instance of i
AwaitedReplies(i) ==
    IF ~Live(i) THEN {}
    ELSE UNION { ReplyEvs(slots[s].name, Routing(i, req[i].serial), k, i, IF k = "JUNK" THEN 1 ELSE 0) : s \in req[i].ref, k \in ReplyKinds }

\* strays: not-awaited service / unknown service for the current tag; stale, malformed tags
StrayKinds == IF StrayLevel >= 2 THEN ReplyKinds \ {"JUNK"} ELSE {"OKA", "NO"}
StrayReplies(i) ==
    IF StrayLevel = 0 THEN {}
    ELSE LET cur == IF Live(i) THEN {Routing(i, req[i].serial)} ELSE {}
             \* not awaited: configured services that owe nothing, an unknown service, and unknown services whose names
             \* extend the name of an awaited one (a name comparison that stops early would accept them)
             notAwaited == IF Live(i) THEN ((SvcNameSet \cup {"zz.unknown"}) \ {slots[s].name : s \in req[i].ref})
                                           \cup {slots[s].name \o "2" : s \in req[i].ref}
                           ELSE {}
             badtags == {t[1] : t \in oldtags[i]} \cup {Hex(i), Hex(i) \o "_1x", "_", "zz_1"}
         IN UNION { ReplyEvs(s, t, k, i, 1) : s \in notAwaited, t \in cur, k \in StrayKinds }
            \cup UNION { ReplyEvs(s, t, k, i, 1) : s \in SvcNameSet, t \in badtags, k \in StrayKinds }

JunkEvents(i) ==
    IF ~JunkOn THEN {}
    ELSE { [e |-> "J", shape |-> "drop", form |-> f, id |-> i] : f \in {"idonly", "blank", "nopar", "unkcmd", "shortC", "shortX", "unkid"} }
         \cup { [e |-> "J", shape |-> "m1", cmd |-> "N", id |-> i], [e |-> "J", shape |-> "Ushort", id |-> i] }

\* lines about a client that has already been decided / withdrawn (the server may still send them):
\* all are dropped by the daemon, so nothing may come back
DeadEvents(i) ==
    IF StrayLevel = 0 \/ Live(i) \/ inst[i] = 0 THEN {}
    ELSE { [e |-> "H", id |-> i, st |-> 1], [e |-> "d", id |-> i, st |-> 1], [e |-> "u0", id |-> i, st |-> 1],
           [e |-> "TO", id |-> i, st |-> 1], [e |-> "D", id |-> i, st |-> 1], [e |-> "T", id |-> i, st |-> 1],
           [e |-> "n", id |-> i, nick |-> <<"n1", 5>>, st |-> 1],
           [e |-> "P", id |-> i, shape |-> "ok", modes |-> <<"-", "!">>, cred |-> <<"p1", 10>>, raw |-> <<"P-!p1", 0>>, st |-> 1] }

Events ==
    UNION {
      (IF inst[i] < MaxInst THEN {[e |-> "C", id |-> i, addr |-> "A" \o Hex(i), port |-> 1000 + i]} ELSE {})
      \cup (IF Live(i) THEN DataEvents(i) \cup {[e |-> "D", id |-> i], [e |-> "T", id |-> i]} ELSE {})
      \cup (IF Live(i) /\ npw[i] < MaxPw THEN PasswordEvents(i) ELSE {})
      \cup (IF Live(i) /\ req[i].timer = "armed" THEN {[e |-> "TO", id |-> i]} ELSE {})
      \cup AwaitedReplies(i) \cup StrayReplies(i) \cup JunkEvents(i) \cup DeadEvents(i)
      : i \in Ids }

ScriptOK(e) == Script = <<>> \/ (Len(hist) < Len(Script) /\ e.e \in Script[Len(hist) + 1])

MCNext ==
    \E e \in {x \in Events : ScriptOK(x)} :
       /\ Step(e)
       /\ LET r == A!CStep(cst, e, out', Cardinality(DOMAIN req')) IN
            /\ cst' = r.c
            /\ cviol' = r.v
       /\ inst' = IF e.e = "C" THEN [inst EXCEPT ![e.id] = @ + 1] ELSE inst
       /\ npw' = IF e.e = "C" THEN [npw EXCEPT ![e.id] = 0]
                 ELSE IF e.e = "P" /\ Live(e.id) THEN [npw EXCEPT ![e.id] = @ + 1] ELSE npw
       \* the tag of an instance becomes stale when the instance ends: replaced by a re-announcement, withdrawn (D),
       \* reported registered (T), or decided (accepted / killed) in this step
       /\ oldtags' = [i \in Ids |-> oldtags[i] \cup
                        (IF Live(i) /\ (i \notin DOMAIN req' \/ req'[i].serial # req[i].serial)
                         THEN { <<Routing(i, req[i].serial), {slots[s].name : s \in req[i].ref}>> } ELSE {})]
       /\ repl' = IF e.e = "C" THEN [repl EXCEPT ![e.id] = Live(e.id)] ELSE repl
       /\ hist' = Append(hist, [e |-> e, o |-> out', n |-> Cardinality(DOMAIN req')])

MCSpec == MCInit /\ [][MCNext]_mcvars

\* state identity: everything but the ghosts (cviol stays in: a violating step must not be deduplicated away)
SlotsNoRefs == [s \in 1..Len(slots) |-> [slots[s] EXCEPT !.refs = 0]]
MCView == <<serial, req, SlotsNoRefs, cst, cviol, inst, npw, oldtags, repl, IF Script = <<>> THEN 0 ELSE Len(hist)>>

\* one complete behaviour per explored transition
Emit == \/ EmitMod = 0
        \/ (EmitMod > 1 /\ RandomElement(1..EmitMod) # 1)
        \/ PrintT("@@E" \o ToJson(hist'))

\* simulation mode: print the behaviour once it has reached the requested length
SimEmit == Len(hist) # SimDepth \/ PrintT("@@E" \o ToJson(hist))

\* contract conjuncts, one invariant each so that TLC names the property
P01_once    == "P01_once" \notin cviol
P02_gate    == "P02_gate" \notin cviol
P03_prompt  == "P03_prompt" \notin cviol
P04_stray   == "P04_stray" \notin cviol
P05_content == "P05_content" \notin cviol
P06_queries == "P06_queries" \notin cviol
P07_scope   == "P07_scope" \notin cviol
P09_wire    == "P09_wire" \notin cviol
P10_count   == "P10_count" \notin cviol
P17_config  == "P17_config" \notin cviol

\* contract state and implementation state agree on who is live and who is awaited (refinement mapping sanity)
Agree == /\ DOMAIN cst.cl = DOMAIN req
         /\ \A i \in DOMAIN req :
              /\ cst.cl[i].owes = {slots[s].name : s \in req[i].ref}
              /\ cst.cl[i].expired = req[i].timedout
              /\ (cst.cl[i].acct = A!Nil) = (req[i].account = Nil)

\* ---- configurations (cfg files cannot hold sequences) ----
S_q1 == << [name |-> "a1.svc", type |-> "login"], [name |-> "b2.svc", type |-> "dronecheck"] >>
S_t1a == << [name |-> "a1.svc", type |-> "login"], [name |-> "b2.svc", type |-> "combined"], [name |-> "c3.svc", type |-> "dronecheck"] >>
S_t1b == << [name |-> "a1.svc", type |-> "login-ipr"], [name |-> "b2.svc", type |-> "dronecheck"] >>
S_t1c == << [name |-> "a1.svc", type |-> "login"], [name |-> "b2.svc", type |-> "login"] >>
S_t1d == << [name |-> "a1.svc", type |-> "combined"] >>
S_none == << >>
\* less usual configurations: an entry whose protocol word is unknown (the service is listed but never queried), a
\* dronecheck service alone (no service ever takes a password), two services of which one's name is a prefix of the other's
S_unk == << [name |-> "a1.svc", type |-> "login"], [name |-> "m5.svc", type |-> "gopher"], [name |-> "z9.svc", type |-> "dronecheck"] >>
S_drone == << [name |-> "b2.svc", type |-> "dronecheck"] >>
\* no dronecheck and no combined service: nothing but login-type protocols
S_ipr2 == << [name |-> "a1.svc", type |-> "login-ipr"], [name |-> "b2.svc", type |-> "login"] >>
S_pref == << [name |-> "a1.svc", type |-> "dronecheck"], [name |-> "a1.svc2", type |-> "login"] >>
S_noxq == << [name |-> "", type |-> "@noxquery"] >>
NoBug == {}
NoRich == {}
RichData == {"data", "shapes"}
RichReply == {"reply"}
RichModes == {"modes", "shapes"}
RichTilde == {"tilde"}
NoScript == << >>
\* straight-line scripts: one client, every data item in one of a few orders, then replies
ScriptData1 == << {"C"}, {"N", "d"}, {"u", "u0"}, {"n"}, {"U"}, {"P"} >>
ScriptData2 == << {"C"}, {"P"}, {"U"}, {"u", "u0"}, {"n"}, {"N", "d"} >>
ScriptData3 == << {"C"}, {"u0", "u"}, {"P"}, {"n"}, {"H"} >>
ScriptReply1 == << {"C"}, {"P"}, {"H"}, {"X"}, {"X", "P"}, {"X"}, {"X"} >>
ScriptReply2 == << {"C"}, {"H"}, {"P"}, {"X", "TO"}, {"X"}, {"X", "P"}, {"X"} >>
BugD2 == {"D2"}
BugD3 == {"D3"}
BugD4 == {"D4"}
BugD15 == {"D15"}
Ids1 == {5}
Ids2 == {5, 6}
=============================================================================
