"""Pipeline of the C11 check (connection-class rules):
   TLC (MCClassRules exhaustive / MCClassGen seeded sample) -> (rule table, client) cases
   -> configuration file + short history on the real daemon -> ndjson -> TLC (ClassTrace, the oracle).

Nothing here judges the property: the module renders cases to text, feeds lines, splits the daemon's output
lines into words, and maps TLC's findings back to cases."""
import json
import multiprocessing
from . import core as _core
import os
import re
import shutil
import time
import zlib
from concurrent.futures import ThreadPoolExecutor

from . import daemon as D
from . import tlc as T
from .core import MachineryError

SPEC_DIR = T.SPEC_DIR
CRITERIA = ("class", "account", "address", "username", "hostname", "xreply_ok")


def txt(codes):
    return "".join(chr(c) for c in codes)


def codes(s):
    return [ord(c) for c in s]


# ---- TLC side: case generation ------------------------------------------------------------------------------
def _read_cases(path):
    cases = []
    with open(path, errors="replace") as f:
        for line in f:
            if line.startswith('"@@E'):
                cases.append(json.loads(json.loads(line)[3:]))
    return cases


def _cfg_with(ctx, base, name, subst):
    with open(os.path.join(SPEC_DIR, base)) as f:
        text = f.read()
    for pat, rep in subst:
        text, n = re.subn(pat, rep, text, flags=re.M)
        if n != 1:
            raise MachineryError("cfg template %s: pattern %r matched %d times" % (base, pat, n))
    p = os.path.join(ctx.scratch, name)
    with open(p, "w") as f:
        f.write(text)
    return p


def exhaustive(ctx, cfg, emit_mod, workers=16, timeout=900, bug=None):
    """Exhaustive run of MCClassRules with spec/<cfg>; returns (TLCResult, emitted cases)."""
    subst = [(r"^  EmitMod = \d+$", "  EmitMod = %d" % emit_mod)]
    if bug:
        subst.append((r"^  CBug <- Bug_none$", "  CBug <- %s" % bug))
    p = _cfg_with(ctx, cfg, "x_" + cfg, subst)
    outp = os.path.join(ctx.scratch, "x_%s.out" % cfg)
    r = ctx.tlc("MCClassRules", p, workers=workers, timeout=timeout, stdout_path=outp, heap="8g", seed=ctx.seed)
    cases = _read_cases(outp) if emit_mod else []
    os.unlink(outp)
    return r, cases


def sample(ctx, n_tables, m_clients, parts=4, cfg="MCClassGen.cfg", timeout=900):
    """Seeded sample from MCClassGen (workers=1 per run so that RandomElement is reproducible); `parts` runs with
    different seeds in parallel.  Returns (list of TLCResult, cases)."""
    per = (n_tables + parts - 1) // parts

    def one(k):
        p = _cfg_with(ctx, cfg, "g%d_%s" % (k, cfg), [(r"^  GenN = \d+$", "  GenN = %d" % per),
                                                      (r"^  GenM = \d+$", "  GenM = %d" % m_clients)])
        outp = os.path.join(ctx.scratch, "g%d.out" % k)
        r = ctx.tlc("MCClassGen", p, workers=1, timeout=timeout, stdout_path=outp, heap="3g", seed=ctx.seed * 1000 + k)
        c = _read_cases(outp)
        os.unlink(outp)
        return r, c
    with ThreadPoolExecutor(parts) as ex:
        res = list(ex.map(one, range(parts)))
    rs, cases = [], []
    for r, c in res:
        if not r.ok:
            raise MachineryError("sampling model MCClassGen violates %s on the unchanged specification:\n%s"
                                 % (r.violated, r.violation_text[:3000]))
        if len(c) != per:
            raise MachineryError("MCClassGen printed %d cases, expected %d" % (len(c), per))
        rs.append(r)
        cases.extend(c)
    return rs, cases


def group_by_table(cases, max_clients=12):
    """Merge cases that share the service set and the listing into jobs (one daemon per job)."""
    jobs = {}
    order = []
    for c in cases:
        key = json.dumps([c["svcs"], c["rules"]], sort_keys=True)
        j = jobs.get(key)
        if j is None or len(j["clis"]) >= max_clients:
            j = {"svcs": c["svcs"], "rules": c["rules"], "clis": [], "want": [], "nm": []}
            jobs[key] = j
            order.append(j)
        j["clis"].extend(c["clis"])
        j["want"].extend(c["want"])
        j["nm"].extend(c.get("nm", [None] * len(c["clis"])))
    return order


# ---- rendering -----------------------------------------------------------------------------------------------
def render_rules(rules):
    out = []
    for r in rules:
        d = {"name": txt(r["name"])}
        for k in CRITERIA:
            if r[k]:
                d[k] = txt(r[k][0])
        if r["trust"]:
            d["trust_username"] = "yes"
        out.append(d)
    return out


def render_svcs(svcs):
    return [{"name": txt(s["name"]), "type": s["type"]} for s in svcs]


def case_hash(job, ci):
    return zlib.crc32(json.dumps([job["rules"], job["clis"][ci]], sort_keys=True).encode())


class ClientRun:
    """History that establishes one client's attributes, in two parts: data() = the announcement and the data
    lines (and the password); finish() = the replies of the services, a second password (re-query) and the
    request timeout, as the client's `xr` states demand.  Tags come from the daemon's own X lines."""

    def __init__(self, cid, cli, svcs, variant):
        self.id = cid
        self.c = cli
        self.svcs = svcs
        self.variant = variant
        self.tags = {}          # service -> tag of the daemon's latest query
        self.nq = {}            # service -> number of queries seen
        self.verdicts = []      # (kind, acct, cls)
        self.u = []
        self.other = []
        self.steps = 0
        self.early = False      # a verdict was printed before every planned line had been sent
        self.types = {s["name"]: s["type"] for s in svcs}
        self.st = {txt(x["svc"]): x for x in cli["xr"]}
        self.login = [s["name"] for s in svcs if s["type"] != "dronecheck"]
        self.sent_pw = any(self.st[n]["sent"] for n in self.login)

    def renderable(self):
        for n, x in self.st.items():
            if self.types[n] == "dronecheck" and not x["sent"]:
                return False
            if x["ok"] and x["ref"] and len(self.st) < 2:
                return False
        if self.c["acct"] and not any(self.st[n]["ok"] for n in self.login):
            return False
        return True

    def data(self):
        c, i = self.c, self.id
        C = "%d C %s %d 10.9.8.7 6667" % (i, txt(c["addr"]), 1000 + i)
        N = ("%d N %s" % (i, txt(c["host"]))) if c["host"] else ("%d d" % i)
        u = ("%d u %s" % (i, txt(c["ident"]))) if c["ident"] else ("%d u" % i)
        n = "%d n nick%d" % (i, i)
        U = "%d U %s :Real Name %d" % (i, txt(c["user"]), i)
        P = ["%d P :+x acct%d pw" % (i, i)] if self.sent_pw else []
        # the password always precedes the last data item: with no other service configured the client is
        # accepted by the line that completes the data
        if self.variant % 2 == 0:
            return [C, N, u, n] + P + [U]
        return [C, U, n] + P + [u, N]

    def reply(self, svc):
        """The line(s) that put service `svc` into its state; None if nothing is to be sent."""
        x = self.st[svc]
        tag = self.tags.get(svc)
        if tag is None:
            return None
        if x["ok"]:
            if self.types[svc] != "dronecheck" and self.c["acct"]:
                return "-1 X %s %s :OK %s" % (svc, tag, txt(self.c["acct"]))
            return "-1 X %s %s :OK" % (svc, tag)
        if x["sent"] and not x["ref"]:
            if (self.variant // 2) % 2 == 0:
                return "-1 x %s %s :Server not online" % (svc, tag)
            return "-1 X %s %s :AGAIN try again later" % (svc, tag)
        return None

    def finish(self):
        """Generator of input lines; the driver sends each and feeds the output back through observe()."""
        names = [s["name"] for s in self.svcs]
        requery = [n for n in names if self.st[n]["ok"] and self.st[n]["ref"]]
        first = requery + [n for n in names if n not in requery]
        if not requery and (self.variant // 4) % 2 == 1:
            first.reverse()
        for n in first:
            ln = self.reply(n)
            if ln:
                if self.verdicts:
                    self.early = True
                    return
                yield ln
            if n in requery:
                if self.verdicts:
                    self.early = True
                    return
                yield "%d P :+x acct%d pw2" % (self.id, self.id)
        if any(x["ref"] for x in self.st.values()):
            if self.verdicts:
                self.early = True
                return
            yield "%d ! timeout" % self.id

    def observe(self, words, raw):
        k = words[0]
        if k == "X" and len(words) >= 3:
            self.tags[words[1]] = words[2]
            self.nq[words[1]] = self.nq.get(words[1], 0) + 1
        elif k == "D":
            self.verdicts.append(("D", "", words[4] if len(words) > 4 else ""))
        elif k == "R":
            self.verdicts.append(("R", words[4] if len(words) > 4 else "", words[5] if len(words) > 5 else ""))
        elif k == "k":
            self.verdicts.append(("k", "", ""))
        elif k == "U":
            self.u.append(words[4] if len(words) > 4 else "")
        else:
            self.other.append(raw)

    def obs(self, crashed=False):
        if self.verdicts:
            v = self.verdicts[0]
            return {"v": v[0], "cls": codes(v[2]), "acct": codes(v[1]), "u": [codes(x) for x in self.u], "nv": len(self.verdicts),
                    "est": not self.early}
        return {"v": "crash" if crashed else "none", "cls": [], "acct": [], "u": [codes(x) for x in self.u], "nv": 0, "est": False}


_TAGID = re.compile(r"^([0-9a-f]+)_[0-9a-f]+$")


def _route(line, runs):
    """Which client does an output line belong to?  (second word = id; X lines: id from the routing tag)"""
    try:
        s = line.decode("ascii")
    except UnicodeDecodeError:
        return None, None, None
    w = s.split(" ")
    if w[0] == "X" and len(w) >= 3:
        m = _TAGID.match(w[2])
        if m:
            return runs.get(int(m.group(1), 16)), w, s
        return None, w, s
    if w[0] in ("D", "R", "k", "U", "d", "C", "M", "N", "I", "o", "u") and len(w) >= 2 and re.match(r"^-?\d+$", w[1]):
        return runs.get(int(w[1])), w, s
    return None, w, s


def run_job(build, workdir, job, pipeline=True, only=None):
    """One daemon with the job's configuration; the job's clients one after the other, the data lines of client
    j+1 being sent before the replies of client j (two requests in flight).  Returns (records, info)."""
    svcs = render_svcs(job["svcs"])
    rules = render_rules(job["rules"])
    idxs = list(range(len(job["clis"]))) if only is None else list(only)
    d = D.Daemon(build, workdir, svcs, timeout="1h", modules=("iauth_class",), rules=rules)
    runs = {}
    seq = []
    for n, ci in enumerate(idxs):
        cid = 3 + 5 * n
        cr = ClientRun(cid, job["clis"][ci], svcs, case_hash(job, ci))
        cr.ci = ci
        runs[cid] = cr
        seq.append(cr)
    stray = []
    steps = 0
    crashed = d.dead

    def feed(line, who):
        nonlocal steps, crashed
        if crashed:
            return
        lines, n = d.raw_step(line.encode() + b"\n")
        steps += 1
        who.steps += 1
        for ln in lines:
            cr, w, s = _route(ln, runs)
            if cr is not None:
                cr.observe(w, s)
            else:
                stray.append(ln.decode(errors="replace")[:200])
        if n is None:
            crashed = True

    def do_finish(cr):
        g = cr.finish()
        for line in g:
            feed(line, cr)
            if crashed:
                break

    prev = None
    for cr in seq:
        if not cr.renderable():
            cr.skipped = True
            continue
        cr.skipped = False
        for line in cr.data():
            if cr.verdicts:
                cr.early = True
                break
            feed(line, cr)
        if not pipeline:
            do_finish(cr)
            continue
        if prev is not None:
            do_finish(prev)
        prev = cr
    if pipeline and prev is not None:
        do_finish(prev)
    rc, san, ub = d.close(wait=10)
    recs = []
    for cr in seq:
        if cr.skipped:
            continue
        recs.append({"e": "Case", "svcs": job["svcs"], "rules": job["rules"], "cli": job["clis"][cr.ci],
                     "obs": cr.obs(crashed), "ci": cr.ci})
    info = {"steps": steps, "rc": rc, "san": san[:800], "ub": ub, "stray": stray[:5], "crashed": crashed,
            "skipped": sum(1 for cr in seq if cr.skipped), "conf": d.conf_path}
    return recs, info


def _worker(args):
    (root, moddir, daemonpath, workdir, jobs, trace_path, pipeline) = args

    class B:
        pass
    b = B()
    b.root, b.moddir, b.daemon = root, moddir, daemonpath
    os.makedirs(workdir, exist_ok=True)
    index = []
    tot = {"steps": 0, "daemons": 0, "bad_exit": 0, "crashed": 0, "skipped": 0, "ub": set(), "san": [], "stray": []}
    with open(trace_path, "w") as tf:
        for ji, job in jobs:
            recs, info = run_job(b, workdir, job, pipeline=pipeline)
            tot["steps"] += info["steps"]
            tot["daemons"] += 1
            tot["skipped"] += info["skipped"]
            tot["ub"].update(info["ub"])
            if info["crashed"]:
                tot["crashed"] += 1
            if info["rc"] != 0 or info["san"]:
                tot["bad_exit"] += 1
                if len(tot["san"]) < 3:
                    tot["san"].append({"job": ji, "rc": info["rc"], "san": info["san"]})
            if info["stray"] and len(tot["stray"]) < 5:
                tot["stray"].extend(info["stray"])
            for rec in recs:
                ci = rec.pop("ci")
                tf.write(json.dumps(rec, separators=(",", ":")) + "\n")
                index.append((ji, ci))
    tot["ub"] = sorted(tot["ub"])
    tot["trace"] = trace_path
    tot["index"] = index
    return tot


def replay(ctx, jobs, nproc=12, tag="r", pipeline=True):
    b = ctx.build
    items = list(enumerate(jobs))
    nproc = max(1, min(nproc, len(items)))
    chunks = [items[i::nproc] for i in range(nproc)]
    args = []
    for n, ch in enumerate(chunks):
        args.append((b.root, b.moddir, b.daemon, os.path.join(ctx.scratch, "%s-w%d" % (tag, n)), ch,
                     os.path.join(ctx.scratch, "%s-trace%d.ndjson" % (tag, n)), pipeline))
    if nproc == 1:
        return [_worker(args[0])]
    return _core.pool_map(_worker, args, nproc)


# ---- validation (TLC is the oracle) ----------------------------------------------------------------------------
def validate_trace(ctx, trace_path, nlines, timeout=900):
    if nlines == 0:
        return [], [], []
    r = ctx.tlc("ClassTrace", "ClassTrace.cfg", workers=1, timeout=timeout, env={"TRACE": trace_path}, heap="3g")
    if not r.ok:
        raise MachineryError("trace validation run failed (%s):\n%s" % (r.violated, r.violation_text[:3000]))
    if r.depth != nlines + 1 and r.distinct != nlines + 1:
        raise MachineryError("trace %s not consumed: %d lines, TLC depth %d, %d states\n%s"
                             % (trace_path, nlines, r.depth, r.distinct, r.output[-2000:]))
    v, dr, na = [], [], []
    for line in r.printed:
        s = T.unquote_printed(line)
        if s.startswith("@@V"):
            v.append(json.loads(s[3:]))
        elif s.startswith("@@D"):
            dr.append(json.loads(s[3:]))
        elif s.startswith("@@N"):
            na.append(json.loads(s[3:]))
    return v, dr, na


def validate_all(ctx, results, nthreads=8):
    """-> findings: {"kind": "V"|"D"|"N", "ji", "ci", "conjuncts"|"want"|"v", "obs"}"""
    def one(res):
        v, dr, na = validate_trace(ctx, res["trace"], len(res["index"]))
        if not (v or dr or na):
            return []
        with open(res["trace"]) as f:
            lines = f.readlines()
        out = []
        for kind, lst in (("V", v), ("D", dr), ("N", na)):
            for x in lst:
                ji, ci = res["index"][x["l"] - 1]
                rec = json.loads(lines[x["l"] - 1])
                out.append({"kind": kind, "ji": ji, "ci": ci, "conjuncts": sorted(x["v"]) if kind == "V" else None,
                            "want": x.get("want"), "v": x.get("v") if kind == "N" else None, "obs": rec["obs"]})
        return out
    findings = []
    with ThreadPoolExecutor(nthreads) as ex:
        for o in ex.map(one, results):
            findings.extend(o)
    return findings


# ---- text forms for reports --------------------------------------------------------------------------------------
def rule_short(r):
    parts = ["%s=%s" % (k, txt(r[k][0])) for k in CRITERIA if r[k]]
    if r["trust"]:
        parts.append("trust")
    return "%s{%s}" % (txt(r["name"]), ";".join(parts))


def cli_short(c):
    xr = ",".join("%s:%s" % (txt(x["svc"]), "ok+requery" if x["ok"] and x["ref"] else "ok" if x["ok"] else
                             "pending" if x["ref"] else "other-reply" if x["sent"] else "unasked") for x in c["xr"])
    return "addr=%s host=%s ident=%s user=%s acct=%s xr=[%s]" % (txt(c["addr"]), txt(c["host"]) or "-", txt(c["ident"]) or "-",
                                                               txt(c["user"]), txt(c["acct"]) or "-", xr)


def obs_short(o):
    return "%s cls=%s acct=%s U=%s" % (o["v"], txt(o["cls"]) or "-", txt(o["acct"]) or "-", [txt(x) for x in o["u"]])


def case_short(job, ci):
    return "rules[%s] svcs[%s] cli[%s]" % (" | ".join(rule_short(r) for r in job["rules"]),
                                           ",".join("%s:%s" % (txt(s["name"]), s["type"]) for s in job["svcs"]),
                                           cli_short(job["clis"][ci]))


def sub_job(job, idxs):
    return {"svcs": job["svcs"], "rules": job["rules"], "clis": [job["clis"][i] for i in idxs],
            "want": [job["want"][i] for i in idxs] if job.get("want") else [],
            "nm": [job["nm"][i] for i in idxs] if job.get("nm") else []}


def run_single(ctx, job, tag="single", pipeline=True):
    """Replay one job on a fresh daemon and validate it; returns (findings, records)."""
    sub = os.path.join(ctx.scratch, "%s-%d" % (tag, int(time.time() * 1e6) % 10**9))
    os.makedirs(sub, exist_ok=True)
    res = _worker((ctx.build.root, ctx.build.moddir, ctx.build.daemon, sub, [(0, job)], os.path.join(sub, "t.ndjson"), pipeline))
    f = validate_all(ctx, [res], nthreads=1)
    recs = [json.loads(x) for x in open(res["trace"])]
    shutil.rmtree(sub, ignore_errors=True)
    return f, recs, res


def report(ctx, findings, jobs, max_reports=6):
    """Turn findings into VIOLATION (contract conjunct failed on the real daemon, confirmed on a fresh process,
    minimised to the single client where possible), DRIFT (B predicted something else) and notes."""
    seen = set()
    nd = 0
    for f in findings:
        job = jobs[f["ji"]]
        if f["kind"] == "N":
            continue
        if f["kind"] == "D":
            nd += 1
            if nd <= 3:
                ctx.drift("implementation-shaped spec predicted a different verdict for %s" % case_short(job, f["ci"]),
                          {"observed": obs_short(f["obs"]), "predicted": obs_short(dict(f["want"], nv=1))})
            continue
        conj = "+".join(f["conjuncts"])
        if len(seen) >= max_reports:
            continue
        # second opinion: the single client alone on a fresh daemon; else the whole job again
        alone = sub_job(job, [f["ci"]])
        again, recs, _ = run_single(ctx, alone)
        still = [g for g in again if g["kind"] == "V" and set(g["conjuncts"]) & set(f["conjuncts"])]
        if still:
            rjob, rci, g = alone, 0, still[0]
        else:
            again, recs, _ = run_single(ctx, job)
            still = [g for g in again if g["kind"] == "V" and g["ci"] == f["ci"] and set(g["conjuncts"]) & set(f["conjuncts"])]
            if not still:
                ctx.note("violation of %s did not repeat on a fresh daemon: %s (not reported)" % (conj, case_short(job, f["ci"])))
                continue
            rjob, rci, g = job, f["ci"], still[0]
        w = g.get("want") or {}
        sig = "%s: %s%s got[%s] want[cls=%s trust=%s]" % ("+".join(g["conjuncts"]), case_short(rjob, rci),
                                                        "" if rjob is alone else " (after %d earlier clients on the same daemon)" % rci,
                                                        obs_short(g["obs"]), txt(w.get("cls", [])) or "-", w.get("trust"))
        if sig in seen:
            continue
        seen.add(sig)
        ctx.violation("class rules: the real daemon's verdict for an accepted client contradicts the first matching rule in "
                      "name order (%s): %s; observed %s, required class %s%s"
                      % ("+".join(g["conjuncts"]), case_short(rjob, rci), obs_short(g["obs"]), txt(w.get("cls", [])) or "(none)",
                         ", U line required" if w.get("trust") else ", no U line"),
                      "+".join(g["conjuncts"]), sig,
                      {"kind": "class-case", "job": rjob, "ci": rci, "conf": D.conf_text("<moddir>", render_svcs(rjob["svcs"]),
                       modules=("iauth_class",), rules=render_rules(rjob["rules"])), "observed": g["obs"], "required": w})
    return nd
