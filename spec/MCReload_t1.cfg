\* thorough: every pair over {a.svc, b.svc, c.svc} x 5 type words + absent (216 sections, 46 656 pairs), no earlier client
\* (checks/c17.py writes the same text with its own EmitMod / KeepOld)
CONSTANTS
  Services <- NoServices
  TimeoutOn = TRUE
  Bug <- NoBug
  MaxInst = 1
  MaxPw = 1
  EmitMod = 0
  NameOrder <- Names3
  RBug <- RB_none
  TypeWords <- Words5
  MaxRl = 1
  PreOn = FALSE
  Free = FALSE
  KeepOld = FALSE
INIT RInit
NEXT RNext
VIEW RView
ACTION_CONSTRAINT REmit
INVARIANT ProbeEq
INVARIANT ProbeLive
INVARIANT SlotsRefine
INVARIANT FreshWhenIdle
INVARIANT SlotsSane
INVARIANT TreeFollows
INVARIANT AbstractAgrees
INVARIANT FreshIsFresh
INVARIANT P01_once
INVARIANT P02_gate
INVARIANT P03_prompt
INVARIANT P04_stray
INVARIANT P05_content
INVARIANT P06_queries
INVARIANT P07_scope
INVARIANT P09_wire
INVARIANT P10_count
INVARIANT P17_config
INVARIANT HoldsSane
INVARIANT SerialsUnique
INVARIANT RefsCover
INVARIANT NoReadyLeft
