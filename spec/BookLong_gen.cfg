\* generation: tlc -simulate num=N -depth 2501 ; 16 ids, histories of 2500 steps
CONSTANTS
  Ids = {1, 2, 3, 4, 5, 6, 7, 8, 9, 10, 11, 12, 13, 14, 15, 16}
  TimeoutOn = TRUE
  RealTime = FALSE
  MaxSerial = 0
  MaxNow = 0
  GenDepth = 2500
  Stream = FALSE
INIT Init
NEXT GenNext
INVARIANT LedgerExact
INVARIANT LedgerData
INVARIANT LedgerTimers
INVARIANT ArmedOwned
INVARIANT TimerAgree
INVARIANT LedgerCounters
INVARIANT InUseAgrees
INVARIANT NoReadyLeft
INVARIANT NoOverdue
INVARIANT SerialsUnique
INVARIANT GenEmit
