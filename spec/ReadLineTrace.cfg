CONSTANTS
  ARGV = 16
  Bug <- NoBugs
INIT TInit
NEXT TNext
