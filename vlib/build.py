"""Build the implementation under test from /repo's *current working tree*.

Every check calls build.get() first.  The sources of the working tree (tracked or not)
are hashed; the build lives in ${VERIF_SCRATCH:-/var/tmp}/iauthd-verif/b-<hash> so that
consecutive checks on an unchanged tree share one build, and an edited tree is rebuilt.
The hooks are enabled with -DIAUTHD_C_VERIF.  Everything is compiled with ASan + UBSan.
"""
import fcntl
import hashlib
import os
import shutil
import subprocess
import sys
import time

REPO = os.environ.get("VERIF_REPO", "/repo")
VERIF = os.path.dirname(os.path.dirname(os.path.abspath(__file__)))
SCRATCH_ROOT = os.path.join(os.environ.get("VERIF_SCRATCH", "/var/tmp"), "iauthd-verif")
GUARD = "IAUTHD_C_VERIF"

SRC_DIRS = ["src", "modules"]
CORE_SRCS = ["accumulators", "bitset", "common", "config", "log", "main", "module", "set", "git-version"]
LIB_SRCS = ["accumulators", "bitset", "common", "config", "log", "module", "set", "git-version"]

# UBSan findings that are not memory errors (shift of a too-large value etc.) stay
# recoverable (UBSan's default): they are *recorded*, never alarms (DESIGN.md section 10).
# ASan errors abort the process and therefore truncate the trace, which the trace specs reject.
SAN = ["-g", "-O1", "-fsanitize=address,undefined", "-fno-omit-frame-pointer"]
SAN_SOFT = SAN


def _source_files():
    out = []
    for d in SRC_DIRS:
        full = os.path.join(REPO, d)
        for name in sorted(os.listdir(full)):
            if name.endswith((".c", ".h")):
                out.append(os.path.join(d, name))
    if os.path.exists(os.path.join(REPO, "autoconf.h")):
        out.append("autoconf.h")
    return out


def _harness_files():
    hdir = os.path.join(VERIF, "harness")
    return [os.path.join(hdir, n) for n in sorted(os.listdir(hdir)) if n.endswith((".c", ".h"))]


def tree_hash():
    h = hashlib.sha256()
    for rel in _source_files():
        h.update(rel.encode())
        with open(os.path.join(REPO, rel), "rb") as f:
            h.update(f.read())
    h.update(b"build-v8")
    return h.hexdigest()[:16]


def _run(cmd, cwd, log):
    p = subprocess.run(cmd, cwd=cwd, stdout=subprocess.PIPE, stderr=subprocess.STDOUT, text=True)
    log.write("$ " + " ".join(cmd) + "\n" + p.stdout + "\n")
    if p.returncode != 0:
        raise BuildError("build step failed: %s\n%s" % (" ".join(cmd), p.stdout[-4000:]))


class BuildError(Exception):
    pass


class Build:
    def __init__(self, root):
        self.root = root
        self.daemon = os.path.join(root, "iauthd-c")
        self.moddir = os.path.join(root, "mods")
        self.srcdir = os.path.join(root, "src-copy")

    def harness(self, name):
        """Path of the compiled harness/<name>.c (built on demand, keyed by the harness source's hash,
        linked against this build's copy of the repository sources)."""
        return _build_harness(self.root, name)

    STUB_VARIANTS = {"": [], "all": [], "nopost": ["-DNO_POSTINIT"], "nodtor": ["-DNO_DTOR"],
                     "neither": ["-DNO_POSTINIT", "-DNO_DTOR"],
                     "noctor": ["-DNO_CTOR"], "noctor_nopost": ["-DNO_CTOR", "-DNO_POSTINIT"],
                     "noctor_nodtor": ["-DNO_CTOR", "-DNO_DTOR"],
                     "noctor_neither": ["-DNO_CTOR", "-DNO_POSTINIT", "-DNO_DTOR"]}

    def stubmod(self, variant=""):
        """harness/stubmod.c as a shared object.  variant: "" / "all" (all three entry points),
        "nopost" (no module_post_init), "nodtor" (no module_destructor), "neither";
        "noctor" (no module_constructor) and "noctor_nopost" / "noctor_nodtor" / "noctor_neither"
        (no module_constructor and, in addition, what the suffix says)."""
        if variant not in self.STUB_VARIANTS:
            raise BuildError("unknown stub module variant %r" % (variant,))
        if variant in ("", "all"):
            return _build_harness(self.root, "stubmod")
        return _build_harness(self.root, "stubmod", extra_defs=self.STUB_VARIANTS[variant],
                              outname="stubmod_" + variant)


def _defs(root):
    copy = os.path.join(root, "src-copy")
    return ["-DHAVE_CONFIG_H", "-D" + GUARD, '-DSYSCONFDIR="/nonexistent"',
            '-DMODULESDIR="%s/mods"' % root, '-DLOGDIR="."', "-I" + copy, "-w"]


def _build_harness(root, name, extra_defs=(), outname=None):
    """extra_defs / outname: a variant of the same harness source compiled with additional -D flags
    under its own output name (the name keys the lock and the clean-up of older builds)."""
    srcname = name
    hp = os.path.join(VERIF, "harness", name + ".c")
    if not os.path.exists(hp):
        raise BuildError("no such harness source: " + hp)
    hh = hashlib.sha256()
    hdir_src = os.path.dirname(hp)
    with open(hp, "rb") as f:
        data = f.read()
    hh.update(data)
    if extra_defs:
        hh.update(" ".join(extra_defs).encode())
    for n in sorted(os.listdir(hdir_src)):          # headers shared by harnesses
        if n.endswith(".h"):
            with open(os.path.join(hdir_src, n), "rb") as f:
                hh.update(n.encode() + f.read())
    tag = hh.hexdigest()[:12]
    hdir = os.path.join(root, "h")
    os.makedirs(hdir, exist_ok=True)
    is_so = srcname == "stubmod" or data.startswith(b"// SHARED")
    name = outname or srcname
    out = os.path.join(hdir, "%s-%s%s" % (name, tag, ".so" if is_so else ""))
    if os.path.exists(out):
        return out
    copy = os.path.join(root, "src-copy")
    with open(os.path.join(hdir, "lock-" + name), "w") as lk:
        fcntl.flock(lk, fcntl.LOCK_EX)
        if os.path.exists(out):
            return out
        first = data.split(b"\n", 1)[0].decode(errors="replace")
        link = []
        if "LINK:" in first:
            for w in first.split("LINK:", 1)[1].split():
                if w != "SOFT_UBSAN":
                    link.append(os.path.join(copy, w))
        tmp = out + ".tmp%d" % os.getpid()
        if is_so:
            cmd = ["gcc"] + SAN + _defs(root) + list(extra_defs) + ["-shared", "-fPIC", hp] + link + ["-o", tmp]
        else:
            cmd = (["gcc"] + SAN + _defs(root) + list(extra_defs) + ["-I" + hdir_src, hp] + link
                   + ["-rdynamic", "-levent", "-ldl", "-lm", "-lrt", "-o", tmp])
        p = subprocess.run(cmd, cwd=copy, stdout=subprocess.PIPE, stderr=subprocess.STDOUT, text=True)
        if p.returncode != 0:
            raise BuildError("harness build failed: %s\n%s" % (" ".join(cmd), p.stdout[-4000:]))
        os.replace(tmp, out)
        # drop older builds of this harness
        for n in os.listdir(hdir):
            q = os.path.join(hdir, n)
            if (n.startswith(name + "-") and q != out and ".tmp" not in n
                    and time.time() - os.path.getmtime(q) > 1800):
                try:
                    os.unlink(q)
                except OSError:
                    pass
    return out


def _configure_copy(copy, log):
    # only when /repo has no autoconf.h (never the case in the pinned sandbox)
    _run(["sh", "./configure"], copy, log)


def _do_build(root):
    os.makedirs(root, exist_ok=True)
    copy = os.path.join(root, "src-copy")
    if os.path.exists(copy):
        shutil.rmtree(copy)
    os.makedirs(copy)
    for rel in _source_files():
        dst = os.path.join(copy, rel)
        os.makedirs(os.path.dirname(dst), exist_ok=True)
        shutil.copy2(os.path.join(REPO, rel), dst)
    with open(os.path.join(root, "build.log"), "w") as log:
        if not os.path.exists(os.path.join(copy, "autoconf.h")):
            # configure needs the whole tree
            shutil.rmtree(copy)
            shutil.copytree(REPO, copy, ignore=shutil.ignore_patterns(".git", "*.o", "*.lo", "*.la", ".libs"))
            _configure_copy(copy, log)
        defs = _defs(root)
        mods = os.path.join(root, "mods")
        hdir = os.path.join(root, "h")
        os.makedirs(mods, exist_ok=True)
        os.makedirs(hdir, exist_ok=True)
        jobs = []
        # the daemon
        jobs.append(["gcc"] + SAN + defs + [os.path.join(copy, "src", s + ".c") for s in CORE_SRCS]
                    + ["-rdynamic", "-levent", "-ldl", "-lm", "-lrt", "-o", os.path.join(root, "iauthd-c")])
        # the modules (link lines mirror modules/Makefile.frag)
        jobs.append(["gcc"] + SAN + defs + ["-shared", "-fPIC", os.path.join(copy, "modules", "iauth_core.c"),
                    os.path.join(copy, "modules", "iauth_misc.c"), "-o", os.path.join(mods, "iauth.so")])
        jobs.append(["gcc"] + SAN + defs + ["-shared", "-fPIC", os.path.join(copy, "modules", "iauth_xquery.c"),
                    "-o", os.path.join(mods, "iauth_xquery.so")])
        jobs.append(["gcc"] + SAN + defs + ["-shared", "-fPIC", os.path.join(copy, "modules", "iauth_class.c"),
                    "-o", os.path.join(mods, "iauth_class.so")])
        procs = []
        for j in jobs:
            procs.append((j, subprocess.Popen(j, cwd=copy, stdout=subprocess.PIPE, stderr=subprocess.STDOUT, text=True)))
        failed = None
        for j, p in procs:
            out, _ = p.communicate()
            log.write("$ " + " ".join(j) + "\n" + out + "\n")
            if p.returncode != 0 and failed is None:
                failed = (j, out)
        if failed:
            raise BuildError("build step failed: %s\n%s" % (" ".join(failed[0]), failed[1][-4000:]))
    with open(os.path.join(root, "OK"), "w") as f:
        f.write(str(time.time()))


def _prune(keep):
    try:
        ents = [os.path.join(SCRATCH_ROOT, e) for e in os.listdir(SCRATCH_ROOT) if e.startswith("b-")]
    except FileNotFoundError:
        return
    ents.sort(key=lambda p: os.path.getmtime(p), reverse=True)
    now = time.time()
    for p in ents[6:]:
        # never remove a build another (concurrent) check may still be using
        if p != keep and now - os.path.getmtime(p) > 1800:
            shutil.rmtree(p, ignore_errors=True)


def get():
    """Return a Build for the current working tree of /repo, building it if necessary."""
    os.makedirs(SCRATCH_ROOT, exist_ok=True)
    h = tree_hash()
    root = os.path.join(SCRATCH_ROOT, "b-" + h)
    lockp = os.path.join(SCRATCH_ROOT, "lock-" + h)
    with open(lockp, "w") as lk:
        fcntl.flock(lk, fcntl.LOCK_EX)
        if not os.path.exists(os.path.join(root, "OK")):
            if os.path.exists(root):
                shutil.rmtree(root)
            try:
                _do_build(root)
            except BuildError:
                raise
            _prune(root)
        else:
            os.utime(root, None)
    return Build(root)


def run_scratch(prefix="run"):
    """A fresh per-run scratch directory (caller removes it)."""
    import tempfile
    os.makedirs(SCRATCH_ROOT, exist_ok=True)
    return tempfile.mkdtemp(prefix=prefix + "-", dir=SCRATCH_ROOT)


if __name__ == "__main__":
    t = time.time()
    b = get()
    print(b.root, "%.1fs" % (time.time() - t))
