CONSTANTS
  ARGV = 3
  Bug <- NoBug
  Alphabet <- Sigma4
  MaxLen = 8
  MaxChunk = 8
  Streams <- AllStreams
  LiveIds <- Live05
INIT RInit
NEXT RNext
INVARIANT DeliveredIsContract
INVARIANT BufferIsTail
INVARIANT NoLineWaiting
INVARIANT ArgvInBounds
INVARIANT AbsentParamIsNull
INVARIANT EofClean
