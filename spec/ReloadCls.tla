------------------------------ MODULE ReloadCls ------------------------------
(***************************************************************************)
(* Property C17, class rules: what SIGUSR1 does to iauth_class.            *)
(* (See Reload.tla for the overall picture and the iauth_xquery half.)     *)
(*                                                                         *)
(* The module's CACHE is the compiled rule vector; it is rebuilt only by   *)
(* iauth_class_conf_changed(), which runs only as a configuration hook.    *)
(* config.c (conf_replace_value) runs a node's hook when the node's own    *)
(* value changes and an object's hook when its membership changes; a node  *)
(* spliced over from the file carries no hook until the module's next      *)
(* rebuild installs one (fix 9873c46 hooks every rule object and every     *)
(* criterion).  The walk below delivers exactly those hooks, in order.     *)
(*                                                                         *)
(* RBug (model mutants; {} = the code as it is):                           *)
(*   "D10"       only the section object is hooked (code before 9873c46)   *)
(*   "NOKIDHOOK" rule objects are hooked, their criteria are not           *)
(*   "ACCUM"     the rebuild appends to the old vector instead of          *)
(*               replacing it                                              *)
(***************************************************************************)
EXTENDS ClassRules

CONSTANT RBug

-----------------------------------------------------------------------------
(* The iauth_class section.                                                 *)
(* FILE section: a listing (sequence of ClassRules RULE records, any order).*)
(* LIVE section: sequence of rule nodes in conf_object_cmp order,           *)
(*   [name, hooked, kids]  kids : CritKeys -> [present, val, hooked, parsed]*)
(*   val is optional: << >> = NULL (transiently, while being removed).      *)
CritOrder == << "account", "address", "class", "hostname", "trust_username", "username", "xreply_ok" >>    \* conf_object_cmp order
CritKeys == {CritOrder[i] : i \in 1..Len(CritOrder)}
YesText == T("yes")

AbsentKid == [present |-> FALSE, val |-> << >>, hooked |-> FALSE, parsed |-> FALSE]
FileKid(r, key) == IF key = "trust_username" THEN (IF r.trust THEN << YesText >> ELSE << >>) ELSE r[key]

\* (records and tuples are built explicitly: TLC keeps [x \in S |-> e] unevaluated, and the repeated rebuilds of one
\* walk would nest such closures exponentially)
KidOf(r, key) == IF FileKid(r, key) = << >> THEN AbsentKid
                 ELSE [present |-> TRUE, val |-> FileKid(r, key), hooked |-> FALSE, parsed |-> FALSE]
NewNode(r) == [name |-> r.name, hooked |-> FALSE,
               kids |-> [account |-> KidOf(r, "account"), address |-> KidOf(r, "address"), class |-> KidOf(r, "class"),
                         hostname |-> KidOf(r, "hostname"), trust_username |-> KidOf(r, "trust_username"),
                         username |-> KidOf(r, "username"), xreply_ok |-> KidOf(r, "xreply_ok")]]

\* the rule the module reads off a node: conf_get_child() && str->value
KidVal(n, key) == IF n.kids[key].present THEN n.kids[key].val ELSE << >>
RuleOf(n) == [name |-> n.name, class |-> KidVal(n, "class"), account |-> KidVal(n, "account"), address |-> KidVal(n, "address"),
              username |-> KidVal(n, "username"), hostname |-> KidVal(n, "hostname"), xreply_ok |-> KidVal(n, "xreply_ok"),
              trust |-> KidVal(n, "trust_username") # << >>]      \* conf_parse_boolean("yes")
RECURSIVE ListingFrom(_, _)
ListingFrom(tree, k) == IF k > Len(tree) THEN << >> ELSE << RuleOf(tree[k]) >> \o ListingFrom(tree, k + 1)
TreeListing(tree) == ListingFrom(tree, 1)

HookKid(kid) == IF kid.present /\ "NOKIDHOOK" \notin RBug THEN [kid EXCEPT !.hooked = TRUE] ELSE kid
HookNode(n) == [name |-> n.name, hooked |-> TRUE,
                kids |-> [account |-> HookKid(n.kids.account), address |-> HookKid(n.kids.address), class |-> HookKid(n.kids.class),
                          hostname |-> HookKid(n.kids.hostname), trust_username |-> HookKid(n.kids.trust_username),
                          username |-> HookKid(n.kids.username), xreply_ok |-> HookKid(n.kids.xreply_ok)]]
RECURSIVE HookFrom(_, _)
HookFrom(tree, k) == IF k > Len(tree) THEN << >> ELSE << HookNode(tree[k]) >> \o HookFrom(tree, k + 1)
HookAll(tree) == IF "D10" \in RBug THEN tree ELSE HookFrom(tree, 1)

\* a state of the walk: [tree |-> live section, vec |-> the module's compiled vector (the cache)]
\* iauth_class_conf_changed(): compile the section as it is NOW, install the hooks
ClsRebuild(st) == [tree |-> HookAll(st.tree),
                   vec |-> (IF "ACCUM" \in RBug THEN st.vec ELSE << >>) \o ConfChanged(TreeListing(st.tree))]

\* children of rule node i against the file's rule fr
RECURSIVE MergeKids(_, _, _, _, _)
MergeKids(st, i, fr, c, kmod) ==
    IF c > Len(CritOrder) THEN (IF kmod /\ st.tree[i].hooked THEN ClsRebuild(st) ELSE st)      \* the rule object's hook
    ELSE LET key == CritOrder[c]
             t == st.tree[i].kids[key]
             f == FileKid(fr, key)
         IN IF ~t.present /\ f = << >> THEN MergeKids(st, i, fr, c + 1, kmod)
            ELSE IF ~t.present
            THEN MergeKids([st EXCEPT !.tree[i].kids[key] = [present |-> TRUE, val |-> f, hooked |-> FALSE, parsed |-> FALSE]],
                           i, fr, c + 1, TRUE)
            ELSE IF f = << >>
            THEN LET st0 == [st EXCEPT !.tree[i].kids[key].val = << >>]
                     st1 == IF t.hooked THEN ClsRebuild(st0) ELSE st0
                 IN MergeKids([st1 EXCEPT !.tree[i].kids[key] = AbsentKid], i, fr, c + 1, TRUE)
            ELSE LET changed == ~t.parsed \/ t.val # f
                     st1 == [st EXCEPT !.tree[i].kids[key].val = f, !.tree[i].kids[key].parsed = TRUE]
                     st2 == IF changed /\ t.hooked THEN ClsRebuild(st1) ELSE st1
                 IN MergeKids(st2, i, fr, c + 1, kmod)

\* conf_replace_value(rule node, NULL): every child reverts and is removed
RECURSIVE RevertKids(_, _, _, _)
RevertKids(st, i, c, kmod) ==
    IF c > Len(CritOrder) THEN (IF kmod /\ st.tree[i].hooked THEN ClsRebuild(st) ELSE st)
    ELSE LET key == CritOrder[c]
             t == st.tree[i].kids[key]
         IN IF ~t.present THEN RevertKids(st, i, c + 1, kmod)
            ELSE LET st0 == [st EXCEPT !.tree[i].kids[key].val = << >>]
                     st1 == IF t.hooked THEN ClsRebuild(st0) ELSE st0
                 IN RevertKids([st1 EXCEPT !.tree[i].kids[key] = AbsentKid], i, c + 1, TRUE)

InsertAt(s, i, x) == SubSeq(s, 1, i - 1) \o << x >> \o SubSeq(s, i, Len(s))
RemoveAt(s, i) == SubSeq(s, 1, i - 1) \o SubSeq(s, i + 1, Len(s))

\* the section walk: i = position in the live section, fl = the file's rules in conf_object_cmp order, j = position in it
RECURSIVE MergeCls(_, _, _, _, _)
MergeCls(st, i, fl, j, modified) ==
    IF i > Len(st.tree) /\ j > Len(fl) THEN (IF modified THEN ClsRebuild(st) ELSE st)          \* the section's hook
    ELSE LET cmp == IF i > Len(st.tree) THEN 1
                    ELSE IF j > Len(fl) THEN -1
                    ELSE IF StrCaseEq(st.tree[i].name, fl[j].name) THEN 0
                    ELSE IF StrCaseLt(st.tree[i].name, fl[j].name) THEN -1 ELSE 1
         IN IF cmp > 0 THEN MergeCls([st EXCEPT !.tree = InsertAt(@, i, NewNode(fl[j]))], i + 1, fl, j + 1, TRUE)
            ELSE IF cmp < 0
            THEN LET st1 == RevertKids(st, i, 1, FALSE)
                 IN MergeCls([st1 EXCEPT !.tree = RemoveAt(@, i)], i, fl, j, TRUE)
            ELSE MergeCls(MergeKids(st, i, fl[j], 1, FALSE), i + 1, fl, j + 1, modified)

ReloadCls(tree, vec, listing) == MergeCls([tree |-> tree, vec |-> vec], 1, ConfSet(listing), 1, FALSE)
FreshCls(listing) == ReloadCls(<< >>, << >>, listing)
=============================================================================
