"""Byte-stream driver for C08: feeds the REAL daemon a byte stream in chosen read() chunks, ends it at a chosen
byte (peer death), and records what came back as ndjson for spec/ReadLineTrace.tla.

Pacing: after every write the driver waits until the daemon's stdin pipe is empty (FIONREAD on the write end),
i.e. until the daemon's read() has returned exactly the bytes just written; so every chunk boundary chosen here
is a read() boundary in iauth_read() (chunks above 4096 bytes are cut further by the daemon's own read size).

Two refinements of a delivery (both part of the variant, so the clean reference run is shared):
  glue    junk lines written directly in front of a line of the history, with NO barrier line in between, so that junk
          and line can sit in one read() chunk and are handled by one call of iauth_read() back to back;
  prompt  a chunk of exactly k * 4096 bytes (the daemon's read size) whose last line is a barrier line, made by
          padding with junk lines; after it the input stays OPEN and nothing more is written until the barrier's
          answer has been seen or PROMPT_TIMEOUT has passed ("Prompt" record: answers due / seen).

Nothing here judges the property: the driver renders, runs processes, cuts the output at the barrier lines
(`-1 ? stats2`), parses lines into the records of daemon.py and selects by position which reference output belongs
to which step.  Equality, completion and clean end of input are judged by TLC."""
import fcntl
import json
import multiprocessing
from . import core as _core
import os
import re
import select
import struct
import termios
import time

from . import daemon as D
from . import tlc as T
from .core import MachineryError

BARRIER = b"-1 ? stats2\n"
READ_SIZE = 4096           # evbuffer_read(iauth_in, fd, 4096)
PROMPT_TIMEOUT = 5.0       # the unchanged daemon answers a barrier within milliseconds
_STATS = re.compile(rb"S iauth :\d+-\d+ reqs alloc, (\d+) in use;")
_TAGSER = re.compile(rb"^(X \S+ [0-9a-f]+)_[0-9a-f]+ ")


class _B:
    pass


def canon(o):
    """Canonical text of a parsed output (TLC compares these texts for equality)."""
    return json.dumps(o, sort_keys=True, separators=(",", ":"))


def mk_build(root, moddir, daemon):
    b = _B()
    b.root, b.moddir, b.daemon = root, moddir, daemon
    return b


def _pending(fd):
    return struct.unpack("i", fcntl.ioctl(fd, termios.FIONREAD, b"\0\0\0\0"))[0]


class StreamDaemon(D.Daemon):
    """A daemon process fed with raw chunks instead of barriered steps."""

    def __init__(self, *a, **kw):
        super().__init__(*a, **kw)
        self.out = self.buf            # stdout bytes after the banner
        self.buf = b""
        self.state = "dead" if self.dead else "ok"

    def _drain_out(self, timeout):
        r, _, _ = select.select([self.p.stdout], [], [], timeout)
        if r:
            c = os.read(self.p.stdout.fileno(), 1 << 16)
            if c:
                self.out += c
                return True
            return None
        return False

    def answers(self):
        """Barrier replies completed so far (lines that are exactly "s")."""
        return self.out.count(b"\ns\n") + (1 if self.out.startswith(b"s\n") else 0)

    def await_answers(self, due, timeout):
        """Input stays open, nothing is written: wait until `due` barrier replies have been printed.
        Returns (replies seen, milliseconds waited, process gone?)."""
        t0 = time.time()
        dead = False
        while self.answers() < due:
            rem = t0 + timeout - time.time()
            if rem <= 0:
                break
            r = self._drain_out(min(0.05, rem))
            if r is None or (r is False and self.p.poll() is not None):
                dead = True
                break
        return self.answers(), int((time.time() - t0) * 1000), dead

    def feed(self, chunks, feed_timeout=10.0, awaits=None):
        """Write the chunks, each one only after the previous one has been read by the daemon.
        awaits: {chunk index: number of barrier replies due once that chunk is in} - wait for them (input open,
        nothing written meanwhile) before going on; what was seen is appended to self.prompts.
        Returns "ok", "died" (EPIPE / process gone) or "hang" (pipe not emptied in time)."""
        fd = self.p.stdin.fileno()
        self.prompts = []
        for ci, ch in enumerate(chunks):
            pos = 0
            while pos < len(ch):
                piece = ch[pos:pos + 32768]
                pos += len(piece)
                try:
                    os.write(fd, piece)
                except OSError:
                    self.state = "died"
                    return self.state
                deadline = time.time() + feed_timeout
                spins = 0
                while True:
                    try:
                        if _pending(fd) == 0:
                            break
                    except OSError:
                        self.state = "died"
                        return self.state
                    spins += 1
                    if spins > 50:
                        self._drain_out(0.0002)
                        if self.p.poll() is not None:
                            self.state = "died"
                            return self.state
                        if time.time() > deadline:
                            self.state = "hang"
                            return self.state
            self._drain_out(0)
            if awaits and ci in awaits:
                got, ms, dead = self.await_answers(awaits[ci], PROMPT_TIMEOUT)
                self.prompts.append({"due": awaits[ci], "got": got, "ms": ms, "dead": 1 if dead else 0, "len": len(ch)})
        return self.state

    def finish(self, wait=8.0):
        """End of input.  Returns (exit status or None when killed, sanitizer text, ubsan notes, hang?)."""
        try:
            self.p.stdin.close()
        except OSError:
            pass
        deadline = time.time() + wait
        eof = False
        while time.time() < deadline:
            r = self._drain_out(min(0.25, max(0.0, deadline - time.time())))
            if r is None:
                eof = True
                break
        rc, san, ub = self.close(wait=max(0.5, deadline - time.time()) if eof else 0.2)
        return rc, san, ub, (rc is None)


def segment(out):
    """Cut the daemon's stdout at the barrier replies.  Returns (steps, rest): steps = [(lines, inuse)] for every
    completed barrier, rest = complete lines after the last completed barrier (statistics lines of an unfinished
    barrier reply are kept: they are output like any other)."""
    lines = out.split(b"\n")
    lines.pop()                     # text after the last newline (normally empty)
    steps = []
    cur, inuse, in_stats = [], None, False
    for ln in lines:
        if ln == b"s" and in_stats:
            steps.append((cur, inuse if inuse is not None else -1))
            cur, inuse, in_stats = [], None, False
            continue
        if ln.startswith(b"S "):
            if not in_stats:
                m = _STATS.match(ln)
                if m:
                    in_stats = True
                    inuse = int(m.group(1))
                    continue
            else:
                continue
        if in_stats:
            continue
        cur.append(ln)
    return steps, cur, in_stats


# ---- history level: one stream, many ways of delivering it -----------------------------------------------------
def render_items(d, items):
    """items: [{"ev": event | None, "raw": latin-1 text | None, "junk": bool, "crlf": bool}] -> list of byte lines
    (with terminator, without barrier)."""
    res = []
    for it in items:
        if it.get("raw") is not None:
            body = it["raw"].encode("latin-1")
        else:
            body = d.render(it["ev"]).encode()
        res.append(body + (b"\r\n" if it.get("crlf") else b"\n"))
    return res


def layout(lines):
    """Byte offsets in the stream line1 BARRIER line2 BARRIER ...: [(start, line end, barrier end)]."""
    pos = 0
    lay = []
    for ln in lines:
        a = pos
        b = a + len(ln)
        c = b + len(BARRIER)
        lay.append((a, b, c))
        pos = c
    return lay, pos


def pad_bytes(n, style, uid):
    """Exactly n bytes (n >= 0) of complete junk lines for the unknown client id `uid`: "lines" = unknown-command lines of
    64 bytes, "long" = one over-long line, "late" = short data lines for the unknown id ("<uid> n yyyyyyyyy"),
    "blank" = empty lines, "crlf" = empty CR LF lines."""
    if style == "crlf":
        return b"\r\n" * (n // 2) + b"\n" * (n % 2)
    if style == "blank":
        return b"\n" * n
    head = (b"%d n " if style == "late" else b"%d Z ") % uid
    unit = {"lines": 64, "late": len(head) + 10, "long": n}.get(style, 64)
    out = []
    while n > 0:
        m = min(unit, n)
        if n - m < len(head) + 2:
            m = n                                   # the last line takes the remainder
        if m < len(head) + 2:
            out.append(b"\n" * m)
        else:
            out.append(head + b"y" * (m - len(head) - 1) + b"\n")
        n -= m
    return b"".join(out)


def glue_bytes(glue):
    """variant["glue"] = [[item index, latin-1 text of one junk line, crlf?], ...] -> {index: bytes written directly in
    front of that item's line} (several entries for one index: in the order given)."""
    pre = {}
    for (k, raw, crlf) in glue or []:
        pre[k] = pre.get(k, b"") + raw.encode("latin-1") + (b"\r\n" if crlf else b"\n")
    return pre


def glued_layout(lines, glue):
    """(lines with the glue in front, layout, total, {index: offset in the stream where the item's own line starts})."""
    pre = glue_bytes(glue)
    merged = [pre.get(k, b"") + ln for k, ln in enumerate(lines)]
    lay, total = layout(merged)
    own = {k: lay[k][0] + len(pre[k]) for k in pre if k < len(lines)}
    return merged, lay, total, own


def cut_chunks(stream, cuts):
    cuts = sorted(set(c for c in cuts if 0 < c < len(stream)))
    res, a = [], 0
    for c in cuts:
        res.append(stream[a:c])
        a = c
    res.append(stream[a:])
    return [x for x in res if x]


def variant_chunks(stream, lay, var):
    m = var["mode"]
    if m == "lines":
        return [stream[a:c] for (a, b, c) in lay]
    if m == "whole":
        return [stream]
    if m == "bytes":
        return [stream[i:i + 1] for i in range(len(stream))]
    if m in ("split", "trunc"):
        return cut_chunks(stream, var.get("cuts", []))
    if m == "sep":
        # line by line in the strict sense: a write ends at every line end (glue | line | barrier)
        return cut_chunks(stream, [b for (a, b, c) in lay] + [c for (a, b, c) in lay] + list(var.get("_own", [])))
    raise ValueError(m)


def _quiet(o):
    """Parsed output without oper notices (a glued junk line may print one in front of the line's own output)."""
    return [m for m in o if m.get("k") != ">"]


def _strip_stats(lines):
    """Output lines of an unfinished run's tail: split off a trailing block of statistics lines (the reply to a
    barrier line whose terminator never came but which was processed all the same)."""
    for i, ln in enumerate(lines):
        if _STATS.match(ln):
            return lines[:i], True
    return lines, False


def run_reference(bld, workdir, svcs, items, timeout_on=True, step_timeout=15.0):
    """Clean run: the well-formed lines only, one line per write, each awaited (barrier)."""
    d = D.Daemon(bld, workdir, svcs, timeout=("1h" if timeout_on else None), step_timeout=step_timeout)
    outs = {}
    ok = not d.dead
    lines = render_items(d, items)
    nsteps = 0
    for k, it in enumerate(items):
        if it["junk"] or not ok:
            continue
        lns, n = d.raw_step(lines[k])
        nsteps += 1
        if n is None:
            ok = False
            break
        outs[k] = ([d.parse_line(x) for x in lns], n)
    rc, san, ub = d.close(wait=8 if ok else 2)
    return {"ok": ok and rc == 0 and not san, "outs": outs, "exit": rc, "san": san, "ub": ub, "steps": nsteps}


def run_variant(bld, workdir, svcs, items, var, ref, rid, timeout_on=True):
    """One delivery of the full stream (with junk) on a fresh daemon; returns trace records."""
    d = StreamDaemon(bld, workdir, svcs, timeout=("1h" if timeout_on else None))
    lines = render_items(d, items)
    glue = var.get("glue") or []
    glued = {k for (k, raw, crlf) in glue}
    lines, lay, total, own = glued_layout(lines, glue)
    awaits = None
    if var["mode"] == "prompt":
        # pad the chunk [line q .. barrier of line p] with junk lines in front to exactly k * READ_SIZE bytes
        q, p, kk = var["q"], var["p"], var["k"]
        content = lay[p][2] - lay[q][0]
        while kk * READ_SIZE < content:
            kk += 1
        lines[q] = pad_bytes(kk * READ_SIZE - content, var.get("style", "lines"), var.get("uid", 1999)) + lines[q]
        glued.add(q)
        lay, total = layout(lines)
    stream = b"".join(ln + BARRIER for ln in lines)
    cutoff = var.get("trunc")
    if cutoff is not None:
        stream = stream[:cutoff]
    if var["mode"] == "prompt":
        chunks = cut_chunks(stream, [lay[q][0], lay[p][2]])
        ci = 1 if lay[q][0] > 0 else 0
        if len(chunks[ci]) % READ_SIZE or not chunks[ci].endswith(BARRIER):
            raise MachineryError("prompt delivery: chunk of %d bytes is not a multiple of %d ending in a barrier" % (len(chunks[ci]), READ_SIZE))
        awaits = {ci: p + 1}
    else:
        chunks = variant_chunks(stream, lay, dict(var, _own=sorted(own.values())) if var["mode"] == "sep" else var)
    st = d.feed(chunks, awaits=awaits) if d.state == "ok" else d.state
    prompts = getattr(d, "prompts", [])
    rc, san, ub, killed = d.finish(wait=8.0 if st == "ok" else 1.0)
    steps, rest, in_stats = segment(d.out)
    # which steps lie wholly inside what was sent
    want = len([1 for (a, b, c) in lay if c <= len(stream)])
    recs = [{"e": "Run", "rid": rid, "mode": var["mode"] + ("+trunc" if cutoff is not None else ""), "want": want,
             "len": len(stream), "chunks": len(chunks)}]
    for pr in prompts:
        recs.append(dict(pr, e="Prompt", rid=rid, size=READ_SIZE))
    for k, (lns, n) in enumerate(steps):
        it = items[k] if k < len(items) else {"junk": True}
        o = [d.parse_line(x) for x in lns]
        rec = {"e": "S", "k": k + 1, "j": 1 if it["junk"] else 0, "o": o, "oc": canon(o), "n": n, "roc": "", "rn": -7,
               "g": 1 if k in glued else 0, "ocq": "", "rocq": ""}
        if not it["junk"]:
            ro = ref["outs"].get(k)
            ro, rec["rn"] = (ro if ro is not None else ([{"k": "NOREF"}], -7))
            rec["roc"] = canon(ro)
            if k in glued:
                rec["ocq"], rec["rocq"] = canon(_quiet(o)), canon(_quiet(ro))
        recs.append(rec)
    # the tail: the first line that is not followed by a complete barrier
    eofrec = {"e": "Eof", "cut": 1 if cutoff is not None else 0, "exit": (rc if rc is not None else -9), "san": san[:600], "hang": 1 if (st == "hang" or killed) else 0,
              "died": 1 if st == "died" else 0, "done": len(steps), "want": want}
    body, stats = _strip_stats(rest)
    eofrec["rest"] = [d.parse_line(x) for x in body]
    eofrec["tailstats"] = 1 if (stats or in_stats) else 0
    rref, ralt, eofrec["rj"], eofrec["altstats"], eofrec["part"] = [], None, 0, 0, 0
    if want < len(items):
        a, b, c = lay[want]
        it = items[want]
        ro = ref["outs"].get(want, ([], -7))[0] if not it["junk"] else []
        L = len(stream)
        nterm = 2 if it.get("crlf") else 1
        if L >= b:
            # the line is complete, its barrier is not: its output is due, the barrier's only if the barrier's text
            # is all there and the daemon takes an unterminated last line for a line
            rref = ro
            eofrec["rj"] = 1 if it["junk"] else 0
            if L == c - 1:
                ralt, eofrec["altstats"] = ro, 1
        elif L >= b - nterm and not it["junk"]:
            # only (part of) the terminator is missing: the line's text is all there
            ralt = ro
        elif L > a and it["junk"]:
            eofrec["rj"] = 1
        elif L > a:
            eofrec["part"] = 1       # a well-formed line cut inside its text: not a line of the stream
    if want in glued and not eofrec["rj"]:
        # junk glued in front of the cut-off line may have printed oper notices of its own
        eofrec["restc"], eofrec["rrefc"] = canon(_quiet(eofrec["rest"])), canon(_quiet(rref))
        ralt = _quiet(ralt) if ralt is not None else None
    else:
        eofrec["restc"], eofrec["rrefc"] = canon(eofrec["rest"]), canon(rref)
    eofrec["hasalt"], eofrec["raltc"] = (1, canon(ralt)) if ralt is not None else (0, "")
    recs.append(eofrec)
    return recs, ub, len(steps)


def _hist_worker(args):
    (root, moddir, daemonpath, workdir, jobs, trace_path, stop_after) = args
    bld = mk_build(root, moddir, daemonpath)
    os.makedirs(workdir, exist_ok=True)
    index = []
    ub_all = set()
    nruns = nsteps = nbad = 0
    with open(trace_path, "w") as tf:
        for job in jobs:
            if nbad >= stop_after:
                break
            ref = run_reference(bld, workdir, job["svcs"], job["items"], job.get("timeout_on", True))
            ub_all.update(ref["ub"])
            nsteps += ref["steps"]
            refrec = {"e": "Ref", "rid": job["rid"], "ok": 1 if ref["ok"] else 0, "exit": ref["exit"] if ref["exit"] is not None else -9,
                      "san": ref["san"][:600]}
            tf.write(json.dumps(refrec, separators=(",", ":")) + "\n")
            index.append((job["rid"], -1))
            if not ref["ok"]:
                nbad += 1
                continue
            for vi, var in enumerate(job["variants"]):
                recs, ub, done = run_variant(bld, workdir, job["svcs"], job["items"], var, ref, job["rid"],
                                             job.get("timeout_on", True))
                ub_all.update(ub)
                nruns += 1
                nsteps += done
                e = recs[-1]
                if (e["exit"] != 0 or e["san"] or e["hang"] or e["died"] or e["done"] != e["want"]
                        or any(r["e"] == "Prompt" and r["got"] < r["due"] for r in recs)):
                    nbad += 1
                for r in recs:
                    tf.write(json.dumps(r, separators=(",", ":")) + "\n")
                    index.append((job["rid"], vi + job.get("vbase", 0)))
                if nbad >= stop_after:
                    break
    with open(trace_path + ".idx", "w") as f:
        json.dump(index, f)
    return {"trace": trace_path, "runs": nruns, "steps": nsteps, "lines": len(index), "ubsan": sorted(ub_all)}


def run_histories(ctx, jobs, nproc=14, tag="h", stop_after=3):
    b = ctx.build
    # cut big jobs into pieces of at most `piece` deliveries (each piece repeats the cheap reference run) so that
    # the work spreads evenly; "vbase" keeps the variant numbering of the original job
    piece = 40
    subs = []
    for j in jobs:
        vs = j["variants"]
        if len(vs) <= piece:
            subs.append(dict(j, vbase=0))
        else:
            for a in range(0, len(vs), piece):
                subs.append(dict(j, variants=vs[a:a + piece], vbase=a))
    subs.sort(key=lambda x: -len(x["variants"]))
    nproc = max(1, min(nproc, len(subs)))
    parts = [subs[i::nproc] for i in range(nproc)]
    args = [(b.root, b.moddir, b.daemon, os.path.join(ctx.scratch, "%s-w%d" % (tag, n)), part,
             os.path.join(ctx.scratch, "%s-trace%d.ndjson" % (tag, n)), stop_after) for n, part in enumerate(parts)]
    if nproc == 1:
        return [_hist_worker(args[0])]
    return _core.pool_map(_hist_worker, args, nproc)


# ---- validation ------------------------------------------------------------------------------------------------
def validate(ctx, res, timeout=1200):
    """TLC (ReadLineTrace) on one worker's trace; returns (violations, drifts) as lists of dicts with 'l'."""
    if res["lines"] == 0:
        return [], []
    r = ctx.tlc("ReadLineTrace", "ReadLineTrace.cfg", workers=1, timeout=timeout, env={"TRACE": res["trace"]}, heap="3g")
    if not r.ok:
        raise MachineryError("ReadLineTrace run failed (%s):\n%s" % (r.violated, r.violation_text[:3000]))
    if r.distinct != res["lines"] + 1:
        raise MachineryError("trace %s not consumed: %d lines, TLC %d states\n%s"
                             % (res["trace"], res["lines"], r.distinct, r.output[-2000:]))
    viols, drifts = [], []
    for line in r.printed:
        s = T.unquote_printed(line)
        if s.startswith("@@V"):
            viols.append(json.loads(s[3:]))
        elif s.startswith("@@D"):
            drifts.append(json.loads(s[3:]))
        elif s.startswith("@@N"):
            for k, v in json.loads(s[3:]).items():
                res.setdefault("counters", {})[k] = v
    return viols, drifts


def validate_all(ctx, results, nthreads=8):
    from concurrent.futures import ThreadPoolExecutor
    out = []

    def one(res):
        v, d = validate(ctx, res)
        with open(res["trace"] + ".idx") as f:
            idx = json.load(f)
        o = []
        idx = [tuple(k) if isinstance(k, list) else (k,) for k in idx]
        for x in v:
            o.append({"kind": "V", "v": sorted(x["v"]), "key": tuple(idx[x["l"] - 1]), "l": x["l"], "trace": res["trace"]})
        for x in d:
            o.append({"kind": "D", "d": x.get("d"), "key": tuple(idx[x["l"] - 1]), "l": x["l"], "trace": res["trace"],
                      "want": x.get("want")})
        return o
    with ThreadPoolExecutor(nthreads) as ex:
        for o in ex.map(one, results):
            out.extend(o)
    return out


def trace_line(path, l):
    with open(path) as f:
        for n, line in enumerate(f, 1):
            if n == l:
                return json.loads(line)
    return None


# ---- byte level: one subject (arbitrary bytes), then probes ------------------------------------------------------
CASE_SVCS = [{"name": "a1.svc", "type": "combined"}]
ANNOUNCE5 = b"5 C 1.2.3.4 1000 10.9.8.7 6667\n"
PROBE_A = [b"5 H Others\n", b"-1 X a1.svc %s :OK\n"]
PROBE_B = [b"7 C 10.0.0.7 1007 10.9.8.7 6667\n", b"7 N host7.example\n", b"7 u ident7\n", b"7 n nick7\n",
           b"7 U user7 :Real Name 7\n", b"7 P :+x acct7 pass7\n", b"-1 X a1.svc %s :OK acct7\n"]
CLEANUP = b"5 D\n7 D\n"
_XTAG = re.compile(rb"^X a1\.svc ([0-9a-f]+_[0-9a-f]+) :")


def _mask(lines):
    return [_TAGSER.sub(rb"\1_* ", ln).decode("latin-1") for ln in lines]


def _find_tag(lines, default):
    for ln in lines:
        m = _XTAG.match(ln)
        if m:
            return m.group(1)
    return default


def _probe_a(d):
    """(a1 raw lines, tag, canonical text of probe A's output) or None if the daemon died."""
    a1, n = d.raw_step(PROBE_A[0])
    if n is None:
        return None
    tag = _find_tag(a1, b"5_0")
    a2, n = d.raw_step(PROBE_A[1] % tag)
    if n is None:
        return None
    return a1, tag, canon([_mask(a1), _mask(a2)])


def _probe_b(d):
    lns, n0 = d.barrier()
    if n0 is None:
        return None
    out = []
    tag = b"7_0"
    for ln in PROBE_B:
        if b"%s" in ln:
            ln = ln % tag
        lns, n = d.raw_step(ln)
        if n is None:
            return None
        tag = _find_tag(lns, tag)
        out.append([_mask(lns), n - n0])
    return canon(out)


CLASS_RULES = [{"name": "r1", "class": "c1", "account": "acct*"},
               {"name": "r2", "class": "c2", "hostname": "*.example*", "username": "~*", "trust_username": "yes"},
               {"name": "r3", "class": "c3", "xreply_ok": "a1.svc"},
               {"name": "r4", "address": "1.2.0.0/16"}]
_CONF = {"cls": False}


def _new_daemon(bld, workdir):
    if _CONF["cls"]:
        return D.Daemon(bld, workdir, CASE_SVCS, timeout="1h", step_timeout=10.0, modules=("iauth_xquery", "iauth_class"),
                        rules=CLASS_RULES)
    return D.Daemon(bld, workdir, CASE_SVCS, timeout="1h", step_timeout=10.0)


def _reference(bld, workdir, setup, cache):
    key = tuple(setup)
    if key not in cache:
        d = _new_daemon(bld, workdir)
        ok = not d.dead
        for ln in setup:
            if ok and d.raw_step(ln.encode("latin-1"))[1] is None:
                ok = False
        pa = _probe_a(d) if ok else None
        rc, san, ub = d.close(wait=5)
        d2 = _new_daemon(bld, workdir)
        pb = _probe_b(d2) if not d2.dead else None
        rc2, san2, ub2 = d2.close(wait=5)
        if pa is None or pb is None or rc != 0 or rc2 != 0 or san or san2:
            cache[key] = None
        else:
            cache[key] = (pa[2], pb)
    return cache[key]


_DIGITS10 = re.compile(rb"[0-9]{10}")


def _do_case(d, c, ref):
    """Run one case on daemon d.  Returns (record, completed?, steps)."""
    subj = c["subj"].encode("latin-1")
    big = 1 if (len(subj) > 300 or _DIGITS10.search(subj)) else 0
    rec = {"e": "Case", "cid": c["cid"], "ctx": c["ctx"], "live": 1 if c["setup"] else 0, "pred": c.get("pred", 0),
           "big": big, "subj": [] if len(subj) > 300 else list(subj), "done": 0, "os": [], "a1": [], "tag": [],
           "pac": "", "rac": ref[0] if ref else "NOREF", "pbc": "", "rbc": ref[1] if ref else "NOREF",
           "refok": 1 if ref else 0, "exit": 0, "san": ""}
    nsteps = 0
    tag = None
    for ln in c["setup"]:
        lns, n = d.raw_step(ln.encode("latin-1"))
        nsteps += 1
        if n is None:
            return rec, False, nsteps
        tag = _find_tag(lns, tag)
    if c.get("tagsub") and tag:
        # the subject was written for a fresh daemon (routing tag 5_1): use this process's tag for client 5
        subj = subj.replace(b"5_1", tag)
        rec["subj"] = [] if len(subj) > 300 else list(subj)
    lns, n = d.raw_step(subj)
    nsteps += 1
    if n is None:
        return rec, False, nsteps
    rec["os"] = [list(x) for x in lns]
    pa = _probe_a(d)
    nsteps += 2
    if pa is None:
        return rec, False, nsteps
    rec["a1"], rec["tag"], rec["pac"] = [list(x) for x in pa[0]], list(pa[1]), pa[2]
    pb = _probe_b(d)
    nsteps += 8
    if pb is None:
        return rec, False, nsteps
    rec["pbc"] = pb
    lns, n = d.raw_step(CLEANUP)
    nsteps += 1
    if n is None:
        return rec, False, nsteps
    rec["done"] = 1
    return rec, True, nsteps


def _case_worker(args):
    (root, moddir, daemonpath, workdir, cases, trace_path, per_proc, stop_after, with_class) = args
    _CONF["cls"] = with_class
    bld = mk_build(root, moddir, daemonpath)
    os.makedirs(workdir, exist_ok=True)
    cache = {}
    index = []
    ub_all = set()
    st = {"steps": 0, "cases": 0, "bad": 0, "procs": 0}
    with open(trace_path, "w") as tf:
        def emit(rec, cid):
            tf.write(json.dumps(rec, separators=(",", ":")) + "\n")
            index.append(cid)

        def alone(c):
            """The case on a process of its own, end of input right after it."""
            d = _new_daemon(bld, workdir)
            st["procs"] += 1
            rec, ok, k = _do_case(d, c, _reference(bld, workdir, c["setup"], cache)) if not d.dead else ({}, False, 0)
            st["steps"] += k
            rc, san, ub = d.close(wait=8 if ok else 3)
            ub_all.update(ub)
            if rec:
                rec["exit"], rec["san"] = (rc if rc is not None else -9), san[:600]
                if not ok or rc != 0 or san:
                    st["bad"] += 1
                emit(rec, c["cid"])

        pos = 0
        while pos < len(cases) and st["bad"] < stop_after:
            if cases[pos].get("fresh"):
                st["cases"] += 1
                alone(cases[pos])
                pos += 1
                continue
            d = _new_daemon(bld, workdir)
            st["procs"] += 1
            alive = not d.dead
            batch = []
            while pos < len(cases) and alive and len(batch) < per_proc and not cases[pos].get("fresh"):
                c = cases[pos]
                pos += 1
                st["cases"] += 1
                rec, ok, k = _do_case(d, c, _reference(bld, workdir, c["setup"], cache))
                st["steps"] += k
                if not ok:
                    alive = False
                    rc, san, ub = d.close(wait=3)
                    ub_all.update(ub)
                    rec["exit"], rec["san"] = (rc if rc is not None else -9), san[:600]
                    st["bad"] += 1
                else:
                    batch.append(c)
                emit(rec, c["cid"])
            if alive:
                rc, san, ub = d.close(wait=8)
                ub_all.update(ub)
                emit({"e": "End", "exit": (rc if rc is not None else -9), "san": san[:600], "ncases": len(batch)}, -1)
                if rc != 0 or san:
                    # something in this batch spoils the end of input (a leak, say): find out which case
                    for c in batch:
                        if st["bad"] >= stop_after:
                            break
                        alone(c)
    with open(trace_path + ".idx", "w") as f:
        json.dump(index, f)
    return {"trace": trace_path, "cases": st["cases"], "steps": st["steps"], "lines": len(index), "ubsan": sorted(ub_all),
            "procs": st["procs"]}


def run_cases(ctx, cases, nproc=14, tag="c", per_proc=150, stop_after=4, with_class=False):
    b = ctx.build
    nproc = max(1, min(nproc, (len(cases) + 199) // 200))
    # contiguous blocks keep the "fresh" cases' cost spread and the cases of one context together
    parts = [cases[i::nproc] for i in range(nproc)]
    args = [(b.root, b.moddir, b.daemon, os.path.join(ctx.scratch, "%s-w%d" % (tag, n)), part,
             os.path.join(ctx.scratch, "%s-trace%d.ndjson" % (tag, n)), per_proc, stop_after, with_class)
            for n, part in enumerate(parts)]
    if nproc == 1:
        return [_case_worker(args[0])]
    return _core.pool_map(_case_worker, args, nproc)
