---------------------------- MODULE MCClassGlob -----------------------------
(***************************************************************************)
(* C11: the recursive Glob and B's backtracking FnMatch equal the          *)
(* declarative GlobDecl for every pattern of length <= 3 over              *)
(* {a, b, *, ?} and every string of length <= 4 over {a, b}.               *)
(***************************************************************************)
EXTENDS ClassRules, TLC

-----------------------------------------------------------------------------
VARIABLES gp, gs
GlobBug == {}
GlobAlpha == {97, 98}
Strs(A, n) == UNION {[1..k -> A] : k \in 0..n}
GlobInit == gp \in Strs(GlobAlpha \cup {Star, QMark}, 3) /\ gs \in Strs(GlobAlpha, 4)
GlobNext == UNCHANGED <<gp, gs>>
GlobEq == /\ Glob(gp, gs) = GlobDecl(gp, gs)
          /\ FnMatch(gp, gs) = Glob(gp, gs)
=============================================================================
