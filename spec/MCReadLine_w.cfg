CONSTANTS
  ARGV = 2
  Bug <- NoBug
  Alphabet <- Sigma4
  MaxLen = 7
  MaxChunk = 7
  Streams <- AllStreams
  LiveIds <- Live05
INIT RInit
NEXT RNext
INVARIANT DeliveredIsContract
INVARIANT BufferIsTail
INVARIANT NoLineWaiting
INVARIANT ArgvInBounds
INVARIANT AbsentParamIsNull
INVARIANT EofClean
