\* C20: model mutant on the cases of IOEnv.CASES: module_load() returns early, without `loading_module = prior`, for a module without module_constructor; TLC must report B_PostInitAfterDeps (m1 -> m2, only m1 listed, m2 lacking the constructor: the self-dependency recorded for m2 ends the walk after post-init(m1), before post-init(m2))
SPECIFICATION Spec
CONSTANTS
    Source = "file"
    MaxN = 6
    SelfLoops = TRUE
    DepOrders = "asc"
    WithMissing = TRUE
    WithAnti = FALSE
    Profiles = "full"
    Bug = "NoCtorNoRestore"
\* (the implementation invariants LoadingIsInnermostCtor and NoGhostInGoodCase also fail under this switch, earlier; they are left out so that TLC shows the contract conjunct)
INVARIANTS
    TypeOK RdependsMirrorsDepends SetEmptyAtExit
    B_CtorOnce B_DepsConstructedFirst B_PostInitOnce B_PostInitAfterDeps B_DtorBeforeDeps
    B_StartsComplete B_StopsClean B_AbortsWithError B_NeverRunsPartial
