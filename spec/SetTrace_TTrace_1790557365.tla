---- MODULE SetTrace_TTrace_1790557365 ----
EXTENDS Sequences, TLCExt, Toolbox, Naturals, TLC, SetTrace

_expression ==
    LET SetTrace_TEExpression == INSTANCE SetTrace_TEExpression
    IN SetTrace_TEExpression!expression
----

_trace ==
    LET SetTrace_TETrace == INSTANCE SetTrace_TETrace
    IN SetTrace_TETrace!trace
----

_inv ==
    ~(
        TLCGet("level") = Len(_TETrace)
        /\
        pos = (204)
        /\
        v = ([line |-> 203, pre |-> TRUE, result |-> TRUE, size |-> TRUE, order |-> TRUE, cleanup |-> FALSE, tree |-> TRUE, list |-> TRUE, fresh |-> TRUE, keys |-> TRUE])
        /\
        cl = (<<>>)
        /\
        issued = ({1})
        /\
        kept = ({})
        /\
        m = (<<>>)
        /\
        base = ([m |-> (4 :> 1), cl |-> <<>>, kept |-> {}, issued |-> {1}])
    )
----

_init ==
    /\ m = _TETrace[1].m
    /\ cl = _TETrace[1].cl
    /\ v = _TETrace[1].v
    /\ pos = _TETrace[1].pos
    /\ issued = _TETrace[1].issued
    /\ kept = _TETrace[1].kept
    /\ base = _TETrace[1].base
----

_next ==
    /\ \E i,j \in DOMAIN _TETrace:
        /\ \/ /\ j = i + 1
              /\ i = TLCGet("level")
        /\ m  = _TETrace[i].m
        /\ m' = _TETrace[j].m
        /\ cl  = _TETrace[i].cl
        /\ cl' = _TETrace[j].cl
        /\ v  = _TETrace[i].v
        /\ v' = _TETrace[j].v
        /\ pos  = _TETrace[i].pos
        /\ pos' = _TETrace[j].pos
        /\ issued  = _TETrace[i].issued
        /\ issued' = _TETrace[j].issued
        /\ kept  = _TETrace[i].kept
        /\ kept' = _TETrace[j].kept
        /\ base  = _TETrace[i].base
        /\ base' = _TETrace[j].base

\* Uncomment the ASSUME below to write the states of the error trace
\* to the given file in Json format. Note that you can pass any tuple
\* to `JsonSerialize`. For example, a sub-sequence of _TETrace.
    \* ASSUME
    \*     LET J == INSTANCE Json
    \*         IN J!JsonSerialize("SetTrace_TTrace_1790557365.json", _TETrace)

=============================================================================

 Note that you can extract this module `SetTrace_TEExpression`
  to a dedicated file to reuse `expression` (the module in the 
  dedicated `SetTrace_TEExpression.tla` file takes precedence 
  over the module `SetTrace_TEExpression` below).

---- MODULE SetTrace_TEExpression ----
EXTENDS Sequences, TLCExt, Toolbox, Naturals, TLC, SetTrace

expression == 
    [
        \* To hide variables of the `SetTrace` spec from the error trace,
        \* remove the variables below.  The trace will be written in the order
        \* of the fields of this record.
        m |-> m
        ,cl |-> cl
        ,v |-> v
        ,pos |-> pos
        ,issued |-> issued
        ,kept |-> kept
        ,base |-> base
        
        \* Put additional constant-, state-, and action-level expressions here:
        \* ,_stateNumber |-> _TEPosition
        \* ,_mUnchanged |-> m = m'
        
        \* Format the `m` variable as Json value.
        \* ,_mJson |->
        \*     LET J == INSTANCE Json
        \*     IN J!ToJson(m)
        
        \* Lastly, you may build expressions over arbitrary sets of states by
        \* leveraging the _TETrace operator.  For example, this is how to
        \* count the number of times a spec variable changed up to the current
        \* state in the trace.
        \* ,_mModCount |->
        \*     LET F[s \in DOMAIN _TETrace] ==
        \*         IF s = 1 THEN 0
        \*         ELSE IF _TETrace[s].m # _TETrace[s-1].m
        \*             THEN 1 + F[s-1] ELSE F[s-1]
        \*     IN F[_TEPosition - 1]
    ]

=============================================================================



Parsing and semantic processing can take forever if the trace below is long.
 In this case, it is advised to uncomment the module below to deserialize the
 trace from a generated binary file.

\*
\*---- MODULE SetTrace_TETrace ----
\*EXTENDS IOUtils, TLC, SetTrace
\*
\*trace == IODeserialize("SetTrace_TTrace_1790557365.bin", TRUE)
\*
\*=============================================================================
\*

---- MODULE SetTrace_TETrace ----
EXTENDS TLC, SetTrace

trace == 
    <<
    ([pos |-> 1,v |-> [line |-> 0, pre |-> TRUE, result |-> TRUE, size |-> TRUE, order |-> TRUE, cleanup |-> TRUE, tree |-> TRUE, list |-> TRUE, fresh |-> TRUE, keys |-> TRUE],cl |-> <<>>,issued |-> {},kept |-> {},m |-> <<>>,base |-> [m |-> <<>>, cl |-> <<>>, kept |-> {}, issued |-> {}]]),
    ([pos |-> 2,v |-> [line |-> 1, pre |-> TRUE, result |-> TRUE, size |-> TRUE, order |-> TRUE, cleanup |-> TRUE, tree |-> TRUE, list |-> TRUE, fresh |-> TRUE, keys |-> TRUE],cl |-> <<>>,issued |-> {},kept |-> {},m |-> <<>>,base |-> [m |-> <<>>, cl |-> <<>>, kept |-> {}, issued |-> {}]]),
    ([pos |-> 3,v |-> [line |-> 2, pre |-> TRUE, result |-> TRUE, size |-> TRUE, order |-> TRUE, cleanup |-> TRUE, tree |-> TRUE, list |-> TRUE, fresh |-> TRUE, keys |-> TRUE],cl |-> <<>>,issued |-> {},kept |-> {},m |-> <<>>,base |-> [m |-> <<>>, cl |-> <<>>, kept |-> {}, issued |-> {}]]),
    ([pos |-> 4,v |-> [line |-> 3, pre |-> TRUE, result |-> TRUE, size |-> TRUE, order |-> TRUE, cleanup |-> TRUE, tree |-> TRUE, list |-> TRUE, fresh |-> TRUE, keys |-> TRUE],cl |-> <<>>,issued |-> {},kept |-> {},m |-> <<>>,base |-> [m |-> <<>>, cl |-> <<>>, kept |-> {}, issued |-> {}]]),
    ([pos |-> 5,v |-> [line |-> 4, pre |-> TRUE, result |-> TRUE, size |-> TRUE, order |-> TRUE, cleanup |-> TRUE, tree |-> TRUE, list |-> TRUE, fresh |-> TRUE, keys |-> TRUE],cl |-> <<>>,issued |-> {1},kept |-> {},m |-> <<1>>,base |-> [m |-> <<>>, cl |-> <<>>, kept |-> {}, issued |-> {}]]),
    ([pos |-> 6,v |-> [line |-> 5, pre |-> TRUE, result |-> TRUE, size |-> TRUE, order |-> TRUE, cleanup |-> TRUE, tree |-> TRUE, list |-> TRUE, fresh |-> TRUE, keys |-> TRUE],cl |-> <<>>,issued |-> {},kept |-> {},m |-> <<>>,base |-> [m |-> <<>>, cl |-> <<>>, kept |-> {}, issued |-> {}]]),
    ([pos |-> 7,v |-> [line |-> 6, pre |-> TRUE, result |-> TRUE, size |-> TRUE, order |-> TRUE, cleanup |-> TRUE, tree |-> TRUE, list |-> TRUE, fresh |-> TRUE, keys |-> TRUE],cl |-> <<>>,issued |-> {},kept |-> {},m |-> <<>>,base |-> [m |-> <<>>, cl |-> <<>>, kept |-> {}, issued |-> {}]]),
    ([pos |-> 8,v |-> [line |-> 7, pre |-> TRUE, result |-> TRUE, size |-> TRUE, order |-> TRUE, cleanup |-> TRUE, tree |-> TRUE, list |-> TRUE, fresh |-> TRUE, keys |-> TRUE],cl |-> <<>>,issued |-> {},kept |-> {},m |-> <<>>,base |-> [m |-> <<>>, cl |-> <<>>, kept |-> {}, issued |-> {}]]),
    ([pos |-> 9,v |-> [line |-> 8, pre |-> TRUE, result |-> TRUE, size |-> TRUE, order |-> TRUE, cleanup |-> TRUE, tree |-> TRUE, list |-> TRUE, fresh |-> TRUE, keys |-> TRUE],cl |-> <<>>,issued |-> {},kept |-> {},m |-> <<>>,base |-> [m |-> <<>>, cl |-> <<>>, kept |-> {}, issued |-> {}]]),
    ([pos |-> 10,v |-> [line |-> 9, pre |-> TRUE, result |-> TRUE, size |-> TRUE, order |-> TRUE, cleanup |-> TRUE, tree |-> TRUE, list |-> TRUE, fresh |-> TRUE, keys |-> TRUE],cl |-> <<>>,issued |-> {1},kept |-> {},m |-> (2 :> 1),base |-> [m |-> <<>>, cl |-> <<>>, kept |-> {}, issued |-> {}]]),
    ([pos |-> 11,v |-> [line |-> 10, pre |-> TRUE, result |-> TRUE, size |-> TRUE, order |-> TRUE, cleanup |-> TRUE, tree |-> TRUE, list |-> TRUE, fresh |-> TRUE, keys |-> TRUE],cl |-> <<>>,issued |-> {},kept |-> {},m |-> <<>>,base |-> [m |-> <<>>, cl |-> <<>>, kept |-> {}, issued |-> {}]]),
    ([pos |-> 12,v |-> [line |-> 11, pre |-> TRUE, result |-> TRUE, size |-> TRUE, order |-> TRUE, cleanup |-> TRUE, tree |-> TRUE, list |-> TRUE, fresh |-> TRUE, keys |-> TRUE],cl |-> <<>>,issued |-> {},kept |-> {},m |-> <<>>,base |-> [m |-> <<>>, cl |-> <<>>, kept |-> {}, issued |-> {}]]),
    ([pos |-> 13,v |-> [line |-> 12, pre |-> TRUE, result |-> TRUE, size |-> TRUE, order |-> TRUE, cleanup |-> TRUE, tree |-> TRUE, list |-> TRUE, fresh |-> TRUE, keys |-> TRUE],cl |-> <<>>,issued |-> {},kept |-> {},m |-> <<>>,base |-> [m |-> <<>>, cl |-> <<>>, kept |-> {}, issued |-> {}]]),
    ([pos |-> 14,v |-> [line |-> 13, pre |-> TRUE, result |-> TRUE, size |-> TRUE, order |-> TRUE, cleanup |-> TRUE, tree |-> TRUE, list |-> TRUE, fresh |-> TRUE, keys |-> TRUE],cl |-> <<>>,issued |-> {},kept |-> {},m |-> <<>>,base |-> [m |-> <<>>, cl |-> <<>>, kept |-> {}, issued |-> {}]]),
    ([pos |-> 15,v |-> [line |-> 14, pre |-> TRUE, result |-> TRUE, size |-> TRUE, order |-> TRUE, cleanup |-> TRUE, tree |-> TRUE, list |-> TRUE, fresh |-> TRUE, keys |-> TRUE],cl |-> <<>>,issued |-> {1},kept |-> {},m |-> (3 :> 1),base |-> [m |-> <<>>, cl |-> <<>>, kept |-> {}, issued |-> {}]]),
    ([pos |-> 16,v |-> [line |-> 15, pre |-> TRUE, result |-> TRUE, size |-> TRUE, order |-> TRUE, cleanup |-> TRUE, tree |-> TRUE, list |-> TRUE, fresh |-> TRUE, keys |-> TRUE],cl |-> <<>>,issued |-> {},kept |-> {},m |-> <<>>,base |-> [m |-> <<>>, cl |-> <<>>, kept |-> {}, issued |-> {}]]),
    ([pos |-> 17,v |-> [line |-> 16, pre |-> TRUE, result |-> TRUE, size |-> TRUE, order |-> TRUE, cleanup |-> TRUE, tree |-> TRUE, list |-> TRUE, fresh |-> TRUE, keys |-> TRUE],cl |-> <<>>,issued |-> {},kept |-> {},m |-> <<>>,base |-> [m |-> <<>>, cl |-> <<>>, kept |-> {}, issued |-> {}]]),
    ([pos |-> 18,v |-> [line |-> 17, pre |-> TRUE, result |-> TRUE, size |-> TRUE, order |-> TRUE, cleanup |-> TRUE, tree |-> TRUE, list |-> TRUE, fresh |-> TRUE, keys |-> TRUE],cl |-> <<>>,issued |-> {},kept |-> {},m |-> <<>>,base |-> [m |-> <<>>, cl |-> <<>>, kept |-> {}, issued |-> {}]]),
    ([pos |-> 19,v |-> [line |-> 18, pre |-> TRUE, result |-> TRUE, size |-> TRUE, order |-> TRUE, cleanup |-> TRUE, tree |-> TRUE, list |-> TRUE, fresh |-> TRUE, keys |-> TRUE],cl |-> <<>>,issued |-> {},kept |-> {},m |-> <<>>,base |-> [m |-> <<>>, cl |-> <<>>, kept |-> {}, issued |-> {}]]),
    ([pos |-> 20,v |-> [line |-> 19, pre |-> TRUE, result |-> TRUE, size |-> TRUE, order |-> TRUE, cleanup |-> TRUE, tree |-> TRUE, list |-> TRUE, fresh |-> TRUE, keys |-> TRUE],cl |-> <<>>,issued |-> {1},kept |-> {},m |-> (4 :> 1),base |-> [m |-> <<>>, cl |-> <<>>, kept |-> {}, issued |-> {}]]),
    ([pos |-> 21,v |-> [line |-> 20, pre |-> TRUE, result |-> TRUE, size |-> TRUE, order |-> TRUE, cleanup |-> TRUE, tree |-> TRUE, list |-> TRUE, fresh |-> TRUE, keys |-> TRUE],cl |-> <<>>,issued |-> {},kept |-> {},m |-> <<>>,base |-> [m |-> <<>>, cl |-> <<>>, kept |-> {}, issued |-> {}]]),
    ([pos |-> 22,v |-> [line |-> 21, pre |-> TRUE, result |-> TRUE, size |-> TRUE, order |-> TRUE, cleanup |-> TRUE, tree |-> TRUE, list |-> TRUE, fresh |-> TRUE, keys |-> TRUE],cl |-> <<>>,issued |-> {},kept |-> {},m |-> <<>>,base |-> [m |-> <<>>, cl |-> <<>>, kept |-> {}, issued |-> {}]]),
    ([pos |-> 23,v |-> [line |-> 22, pre |-> TRUE, result |-> TRUE, size |-> TRUE, order |-> TRUE, cleanup |-> TRUE, tree |-> TRUE, list |-> TRUE, fresh |-> TRUE, keys |-> TRUE],cl |-> <<>>,issued |-> {},kept |-> {},m |-> <<>>,base |-> [m |-> <<>>, cl |-> <<>>, kept |-> {}, issued |-> {}]]),
    ([pos |-> 24,v |-> [line |-> 23, pre |-> TRUE, result |-> TRUE, size |-> TRUE, order |-> TRUE, cleanup |-> TRUE, tree |-> TRUE, list |-> TRUE, fresh |-> TRUE, keys |-> TRUE],cl |-> <<>>,issued |-> {},kept |-> {},m |-> <<>>,base |-> [m |-> <<>>, cl |-> <<>>, kept |-> {}, issued |-> {}]]),
    ([pos |-> 25,v |-> [line |-> 24, pre |-> TRUE, result |-> TRUE, size |-> TRUE, order |-> TRUE, cleanup |-> TRUE, tree |-> TRUE, list |-> TRUE, fresh |-> TRUE, keys |-> TRUE],cl |-> <<>>,issued |-> {1},kept |-> {},m |-> (5 :> 1),base |-> [m |-> <<>>, cl |-> <<>>, kept |-> {}, issued |-> {}]]),
    ([pos |-> 26,v |-> [line |-> 25, pre |-> TRUE, result |-> TRUE, size |-> TRUE, order |-> TRUE, cleanup |-> TRUE, tree |-> TRUE, list |-> TRUE, fresh |-> TRUE, keys |-> TRUE],cl |-> <<>>,issued |-> {},kept |-> {},m |-> <<>>,base |-> [m |-> <<>>, cl |-> <<>>, kept |-> {}, issued |-> {}]]),
    ([pos |-> 27,v |-> [line |-> 26, pre |-> TRUE, result |-> TRUE, size |-> TRUE, order |-> TRUE, cleanup |-> TRUE, tree |-> TRUE, list |-> TRUE, fresh |-> TRUE, keys |-> TRUE],cl |-> <<>>,issued |-> {},kept |-> {},m |-> <<>>,base |-> [m |-> <<>>, cl |-> <<>>, kept |-> {}, issued |-> {}]]),
    ([pos |-> 28,v |-> [line |-> 27, pre |-> TRUE, result |-> TRUE, size |-> TRUE, order |-> TRUE, cleanup |-> TRUE, tree |-> TRUE, list |-> TRUE, fresh |-> TRUE, keys |-> TRUE],cl |-> <<>>,issued |-> {},kept |-> {},m |-> <<>>,base |-> [m |-> <<>>, cl |-> <<>>, kept |-> {}, issued |-> {}]]),
    ([pos |-> 29,v |-> [line |-> 28, pre |-> TRUE, result |-> TRUE, size |-> TRUE, order |-> TRUE, cleanup |-> TRUE, tree |-> TRUE, list |-> TRUE, fresh |-> TRUE, keys |-> TRUE],cl |-> <<>>,issued |-> {},kept |-> {},m |-> <<>>,base |-> [m |-> <<>>, cl |-> <<>>, kept |-> {}, issued |-> {}]]),
    ([pos |-> 30,v |-> [line |-> 29, pre |-> TRUE, result |-> TRUE, size |-> TRUE, order |-> TRUE, cleanup |-> TRUE, tree |-> TRUE, list |-> TRUE, fresh |-> TRUE, keys |-> TRUE],cl |-> <<>>,issued |-> {1},kept |-> {},m |-> (6 :> 1),base |-> [m |-> <<>>, cl |-> <<>>, kept |-> {}, issued |-> {}]]),
    ([pos |-> 31,v |-> [line |-> 30, pre |-> TRUE, result |-> TRUE, size |-> TRUE, order |-> TRUE, cleanup |-> TRUE, tree |-> TRUE, list |-> TRUE, fresh |-> TRUE, keys |-> TRUE],cl |-> <<>>,issued |-> {},kept |-> {},m |-> <<>>,base |-> [m |-> <<>>, cl |-> <<>>, kept |-> {}, issued |-> {}]]),
    ([pos |-> 32,v |-> [line |-> 31, pre |-> TRUE, result |-> TRUE, size |-> TRUE, order |-> TRUE, cleanup |-> TRUE, tree |-> TRUE, list |-> TRUE, fresh |-> TRUE, keys |-> TRUE],cl |-> <<>>,issued |-> {},kept |-> {},m |-> <<>>,base |-> [m |-> <<>>, cl |-> <<>>, kept |-> {}, issued |-> {}]]),
    ([pos |-> 33,v |-> [line |-> 32, pre |-> TRUE, result |-> TRUE, size |-> TRUE, order |-> TRUE, cleanup |-> TRUE, tree |-> TRUE, list |-> TRUE, fresh |-> TRUE, keys |-> TRUE],cl |-> <<>>,issued |-> {},kept |-> {},m |-> <<>>,base |-> [m |-> <<>>, cl |-> <<>>, kept |-> {}, issued |-> {}]]),
    ([pos |-> 34,v |-> [line |-> 33, pre |-> TRUE, result |-> TRUE, size |-> TRUE, order |-> TRUE, cleanup |-> TRUE, tree |-> TRUE, list |-> TRUE, fresh |-> TRUE, keys |-> TRUE],cl |-> <<>>,issued |-> {},kept |-> {},m |-> <<>>,base |-> [m |-> <<>>, cl |-> <<>>, kept |-> {}, issued |-> {}]]),
    ([pos |-> 35,v |-> [line |-> 34, pre |-> TRUE, result |-> TRUE, size |-> TRUE, order |-> TRUE, cleanup |-> TRUE, tree |-> TRUE, list |-> TRUE, fresh |-> TRUE, keys |-> TRUE],cl |-> <<>>,issued |-> {1},kept |-> {},m |-> (7 :> 1),base |-> [m |-> <<>>, cl |-> <<>>, kept |-> {}, issued |-> {}]]),
    ([pos |-> 36,v |-> [line |-> 35, pre |-> TRUE, result |-> TRUE, size |-> TRUE, order |-> TRUE, cleanup |-> TRUE, tree |-> TRUE, list |-> TRUE, fresh |-> TRUE, keys |-> TRUE],cl |-> <<>>,issued |-> {},kept |-> {},m |-> <<>>,base |-> [m |-> <<>>, cl |-> <<>>, kept |-> {}, issued |-> {}]]),
    ([pos |-> 37,v |-> [line |-> 36, pre |-> TRUE, result |-> TRUE, size |-> TRUE, order |-> TRUE, cleanup |-> TRUE, tree |-> TRUE, list |-> TRUE, fresh |-> TRUE, keys |-> TRUE],cl |-> <<>>,issued |-> {},kept |-> {},m |-> <<>>,base |-> [m |-> <<>>, cl |-> <<>>, kept |-> {}, issued |-> {}]]),
    ([pos |-> 38,v |-> [line |-> 37, pre |-> TRUE, result |-> TRUE, size |-> TRUE, order |-> TRUE, cleanup |-> TRUE, tree |-> TRUE, list |-> TRUE, fresh |-> TRUE, keys |-> TRUE],cl |-> <<>>,issued |-> {},kept |-> {},m |-> <<>>,base |-> [m |-> <<>>, cl |-> <<>>, kept |-> {}, issued |-> {}]]),
    ([pos |-> 39,v |-> [line |-> 38, pre |-> TRUE, result |-> TRUE, size |-> TRUE, order |-> TRUE, cleanup |-> TRUE, tree |-> TRUE, list |-> TRUE, fresh |-> TRUE, keys |-> TRUE],cl |-> <<>>,issued |-> {},kept |-> {},m |-> <<>>,base |-> [m |-> <<>>, cl |-> <<>>, kept |-> {}, issued |-> {}]]),
    ([pos |-> 40,v |-> [line |-> 39, pre |-> TRUE, result |-> TRUE, size |-> TRUE, order |-> TRUE, cleanup |-> TRUE, tree |-> TRUE, list |-> TRUE, fresh |-> TRUE, keys |-> TRUE],cl |-> <<>>,issued |-> {},kept |-> {},m |-> <<>>,base |-> [m |-> <<>>, cl |-> <<>>, kept |-> {}, issued |-> {}]]),
    ([pos |-> 41,v |-> [line |-> 40, pre |-> TRUE, result |-> TRUE, size |-> TRUE, order |-> TRUE, cleanup |-> TRUE, tree |-> TRUE, list |-> TRUE, fresh |-> TRUE, keys |-> TRUE],cl |-> <<>>,issued |-> {},kept |-> {},m |-> <<>>,base |-> [m |-> <<>>, cl |-> <<>>, kept |-> {}, issued |-> {}]]),
    ([pos |-> 42,v |-> [line |-> 41, pre |-> TRUE, result |-> TRUE, size |-> TRUE, order |-> TRUE, cleanup |-> TRUE, tree |-> TRUE, list |-> TRUE, fresh |-> TRUE, keys |-> TRUE],cl |-> <<>>,issued |-> {},kept |-> {},m |-> <<>>,base |-> [m |-> <<>>, cl |-> <<>>, kept |-> {}, issued |-> {}]]),
    ([pos |-> 43,v |-> [line |-> 42, pre |-> TRUE, result |-> TRUE, size |-> TRUE, order |-> TRUE, cleanup |-> TRUE, tree |-> TRUE, list |-> TRUE, fresh |-> TRUE, keys |-> TRUE],cl |-> <<>>,issued |-> {},kept |-> {},m |-> <<>>,base |-> [m |-> <<>>, cl |-> <<>>, kept |-> {}, issued |-> {}]]),
    ([pos |-> 44,v |-> [line |-> 43, pre |-> TRUE, result |-> TRUE, size |-> TRUE, order |-> TRUE, cleanup |-> TRUE, tree |-> TRUE, list |-> TRUE, fresh |-> TRUE, keys |-> TRUE],cl |-> <<>>,issued |-> {1},kept |-> {},m |-> <<1>>,base |-> [m |-> <<>>, cl |-> <<>>, kept |-> {}, issued |-> {}]]),
    ([pos |-> 45,v |-> [line |-> 44, pre |-> TRUE, result |-> TRUE, size |-> TRUE, order |-> TRUE, cleanup |-> TRUE, tree |-> TRUE, list |-> TRUE, fresh |-> TRUE, keys |-> TRUE],cl |-> <<>>,issued |-> {1},kept |-> {},m |-> <<1>>,base |-> [m |-> <<1>>, cl |-> <<>>, kept |-> {}, issued |-> {1}]]),
    ([pos |-> 46,v |-> [line |-> 45, pre |-> TRUE, result |-> TRUE, size |-> TRUE, order |-> TRUE, cleanup |-> TRUE, tree |-> TRUE, list |-> TRUE, fresh |-> TRUE, keys |-> TRUE],cl |-> <<1>>,issued |-> {1, 2},kept |-> {},m |-> <<2>>,base |-> [m |-> <<1>>, cl |-> <<>>, kept |-> {}, issued |-> {1}]]),
    ([pos |-> 47,v |-> [line |-> 46, pre |-> TRUE, result |-> TRUE, size |-> TRUE, order |-> TRUE, cleanup |-> TRUE, tree |-> TRUE, list |-> TRUE, fresh |-> TRUE, keys |-> TRUE],cl |-> <<>>,issued |-> {1},kept |-> {},m |-> <<1>>,base |-> [m |-> <<1>>, cl |-> <<>>, kept |-> {}, issued |-> {1}]]),
    ([pos |-> 48,v |-> [line |-> 47, pre |-> TRUE, result |-> TRUE, size |-> TRUE, order |-> TRUE, cleanup |-> TRUE, tree |-> TRUE, list |-> TRUE, fresh |-> TRUE, keys |-> TRUE],cl |-> <<>>,issued |-> {1},kept |-> {},m |-> <<1>>,base |-> [m |-> <<1>>, cl |-> <<>>, kept |-> {}, issued |-> {1}]]),
    ([pos |-> 49,v |-> [line |-> 48, pre |-> TRUE, result |-> TRUE, size |-> TRUE, order |-> TRUE, cleanup |-> TRUE, tree |-> TRUE, list |-> TRUE, fresh |-> TRUE, keys |-> TRUE],cl |-> <<1>>,issued |-> {1},kept |-> {},m |-> <<>>,base |-> [m |-> <<1>>, cl |-> <<>>, kept |-> {}, issued |-> {1}]]),
    ([pos |-> 50,v |-> [line |-> 49, pre |-> TRUE, result |-> TRUE, size |-> TRUE, order |-> TRUE, cleanup |-> TRUE, tree |-> TRUE, list |-> TRUE, fresh |-> TRUE, keys |-> TRUE],cl |-> <<>>,issued |-> {1},kept |-> {1},m |-> <<>>,base |-> [m |-> <<1>>, cl |-> <<>>, kept |-> {}, issued |-> {1}]]),
    ([pos |-> 51,v |-> [line |-> 50, pre |-> TRUE, result |-> TRUE, size |-> TRUE, order |-> TRUE, cleanup |-> TRUE, tree |-> TRUE, list |-> TRUE, fresh |-> TRUE, keys |-> TRUE],cl |-> <<>>,issued |-> {1, 2},kept |-> {},m |-> <<1, 2>>,base |-> [m |-> <<1>>, cl |-> <<>>, kept |-> {}, issued |-> {1}]]),
    ([pos |-> 52,v |-> [line |-> 51, pre |-> TRUE, result |-> TRUE, size |-> TRUE, order |-> TRUE, cleanup |-> TRUE, tree |-> TRUE, list |-> TRUE, fresh |-> TRUE, keys |-> TRUE],cl |-> <<>>,issued |-> {1},kept |-> {},m |-> <<1>>,base |-> [m |-> <<1>>, cl |-> <<>>, kept |-> {}, issued |-> {1}]]),
    ([pos |-> 53,v |-> [line |-> 52, pre |-> TRUE, result |-> TRUE, size |-> TRUE, order |-> TRUE, cleanup |-> TRUE, tree |-> TRUE, list |-> TRUE, fresh |-> TRUE, keys |-> TRUE],cl |-> <<>>,issued |-> {1},kept |-> {},m |-> <<1>>,base |-> [m |-> <<1>>, cl |-> <<>>, kept |-> {}, issued |-> {1}]]),
    ([pos |-> 54,v |-> [line |-> 53, pre |-> TRUE, result |-> TRUE, size |-> TRUE, order |-> TRUE, cleanup |-> TRUE, tree |-> TRUE, list |-> TRUE, fresh |-> TRUE, keys |-> TRUE],cl |-> <<>>,issued |-> {1},kept |-> {},m |-> <<1>>,base |-> [m |-> <<1>>, cl |-> <<>>, kept |-> {}, issued |-> {1}]]),
    ([pos |-> 55,v |-> [line |-> 54, pre |-> TRUE, result |-> TRUE, size |-> TRUE, order |-> TRUE, cleanup |-> TRUE, tree |-> TRUE, list |-> TRUE, fresh |-> TRUE, keys |-> TRUE],cl |-> <<>>,issued |-> {1},kept |-> {},m |-> <<1>>,base |-> [m |-> <<1>>, cl |-> <<>>, kept |-> {}, issued |-> {1}]]),
    ([pos |-> 56,v |-> [line |-> 55, pre |-> TRUE, result |-> TRUE, size |-> TRUE, order |-> TRUE, cleanup |-> TRUE, tree |-> TRUE, list |-> TRUE, fresh |-> TRUE, keys |-> TRUE],cl |-> <<>>,issued |-> {1, 2},kept |-> {},m |-> (1 :> 1 @@ 3 :> 2),base |-> [m |-> <<1>>, cl |-> <<>>, kept |-> {}, issued |-> {1}]]),
    ([pos |-> 57,v |-> [line |-> 56, pre |-> TRUE, result |-> TRUE, size |-> TRUE, order |-> TRUE, cleanup |-> TRUE, tree |-> TRUE, list |-> TRUE, fresh |-> TRUE, keys |-> TRUE],cl |-> <<>>,issued |-> {1},kept |-> {},m |-> <<1>>,base |-> [m |-> <<1>>, cl |-> <<>>, kept |-> {}, issued |-> {1}]]),
    ([pos |-> 58,v |-> [line |-> 57, pre |-> TRUE, result |-> TRUE, size |-> TRUE, order |-> TRUE, cleanup |-> TRUE, tree |-> TRUE, list |-> TRUE, fresh |-> TRUE, keys |-> TRUE],cl |-> <<>>,issued |-> {1},kept |-> {},m |-> <<1>>,base |-> [m |-> <<1>>, cl |-> <<>>, kept |-> {}, issued |-> {1}]]),
    ([pos |-> 59,v |-> [line |-> 58, pre |-> TRUE, result |-> TRUE, size |-> TRUE, order |-> TRUE, cleanup |-> TRUE, tree |-> TRUE, list |-> TRUE, fresh |-> TRUE, keys |-> TRUE],cl |-> <<>>,issued |-> {1},kept |-> {},m |-> <<1>>,base |-> [m |-> <<1>>, cl |-> <<>>, kept |-> {}, issued |-> {1}]]),
    ([pos |-> 60,v |-> [line |-> 59, pre |-> TRUE, result |-> TRUE, size |-> TRUE, order |-> TRUE, cleanup |-> TRUE, tree |-> TRUE, list |-> TRUE, fresh |-> TRUE, keys |-> TRUE],cl |-> <<>>,issued |-> {1},kept |-> {},m |-> <<1>>,base |-> [m |-> <<1>>, cl |-> <<>>, kept |-> {}, issued |-> {1}]]),
    ([pos |-> 61,v |-> [line |-> 60, pre |-> TRUE, result |-> TRUE, size |-> TRUE, order |-> TRUE, cleanup |-> TRUE, tree |-> TRUE, list |-> TRUE, fresh |-> TRUE, keys |-> TRUE],cl |-> <<>>,issued |-> {1, 2},kept |-> {},m |-> (1 :> 1 @@ 4 :> 2),base |-> [m |-> <<1>>, cl |-> <<>>, kept |-> {}, issued |-> {1}]]),
    ([pos |-> 62,v |-> [line |-> 61, pre |-> TRUE, result |-> TRUE, size |-> TRUE, order |-> TRUE, cleanup |-> TRUE, tree |-> TRUE, list |-> TRUE, fresh |-> TRUE, keys |-> TRUE],cl |-> <<>>,issued |-> {1},kept |-> {},m |-> <<1>>,base |-> [m |-> <<1>>, cl |-> <<>>, kept |-> {}, issued |-> {1}]]),
    ([pos |-> 63,v |-> [line |-> 62, pre |-> TRUE, result |-> TRUE, size |-> TRUE, order |-> TRUE, cleanup |-> TRUE, tree |-> TRUE, list |-> TRUE, fresh |-> TRUE, keys |-> TRUE],cl |-> <<>>,issued |-> {1},kept |-> {},m |-> <<1>>,base |-> [m |-> <<1>>, cl |-> <<>>, kept |-> {}, issued |-> {1}]]),
    ([pos |-> 64,v |-> [line |-> 63, pre |-> TRUE, result |-> TRUE, size |-> TRUE, order |-> TRUE, cleanup |-> TRUE, tree |-> TRUE, list |-> TRUE, fresh |-> TRUE, keys |-> TRUE],cl |-> <<>>,issued |-> {1},kept |-> {},m |-> <<1>>,base |-> [m |-> <<1>>, cl |-> <<>>, kept |-> {}, issued |-> {1}]]),
    ([pos |-> 65,v |-> [line |-> 64, pre |-> TRUE, result |-> TRUE, size |-> TRUE, order |-> TRUE, cleanup |-> TRUE, tree |-> TRUE, list |-> TRUE, fresh |-> TRUE, keys |-> TRUE],cl |-> <<>>,issued |-> {1},kept |-> {},m |-> <<1>>,base |-> [m |-> <<1>>, cl |-> <<>>, kept |-> {}, issued |-> {1}]]),
    ([pos |-> 66,v |-> [line |-> 65, pre |-> TRUE, result |-> TRUE, size |-> TRUE, order |-> TRUE, cleanup |-> TRUE, tree |-> TRUE, list |-> TRUE, fresh |-> TRUE, keys |-> TRUE],cl |-> <<>>,issued |-> {1, 2},kept |-> {},m |-> (1 :> 1 @@ 5 :> 2),base |-> [m |-> <<1>>, cl |-> <<>>, kept |-> {}, issued |-> {1}]]),
    ([pos |-> 67,v |-> [line |-> 66, pre |-> TRUE, result |-> TRUE, size |-> TRUE, order |-> TRUE, cleanup |-> TRUE, tree |-> TRUE, list |-> TRUE, fresh |-> TRUE, keys |-> TRUE],cl |-> <<>>,issued |-> {1},kept |-> {},m |-> <<1>>,base |-> [m |-> <<1>>, cl |-> <<>>, kept |-> {}, issued |-> {1}]]),
    ([pos |-> 68,v |-> [line |-> 67, pre |-> TRUE, result |-> TRUE, size |-> TRUE, order |-> TRUE, cleanup |-> TRUE, tree |-> TRUE, list |-> TRUE, fresh |-> TRUE, keys |-> TRUE],cl |-> <<>>,issued |-> {1},kept |-> {},m |-> <<1>>,base |-> [m |-> <<1>>, cl |-> <<>>, kept |-> {}, issued |-> {1}]]),
    ([pos |-> 69,v |-> [line |-> 68, pre |-> TRUE, result |-> TRUE, size |-> TRUE, order |-> TRUE, cleanup |-> TRUE, tree |-> TRUE, list |-> TRUE, fresh |-> TRUE, keys |-> TRUE],cl |-> <<>>,issued |-> {1},kept |-> {},m |-> <<1>>,base |-> [m |-> <<1>>, cl |-> <<>>, kept |-> {}, issued |-> {1}]]),
    ([pos |-> 70,v |-> [line |-> 69, pre |-> TRUE, result |-> TRUE, size |-> TRUE, order |-> TRUE, cleanup |-> TRUE, tree |-> TRUE, list |-> TRUE, fresh |-> TRUE, keys |-> TRUE],cl |-> <<>>,issued |-> {1},kept |-> {},m |-> <<1>>,base |-> [m |-> <<1>>, cl |-> <<>>, kept |-> {}, issued |-> {1}]]),
    ([pos |-> 71,v |-> [line |-> 70, pre |-> TRUE, result |-> TRUE, size |-> TRUE, order |-> TRUE, cleanup |-> TRUE, tree |-> TRUE, list |-> TRUE, fresh |-> TRUE, keys |-> TRUE],cl |-> <<>>,issued |-> {1, 2},kept |-> {},m |-> (1 :> 1 @@ 6 :> 2),base |-> [m |-> <<1>>, cl |-> <<>>, kept |-> {}, issued |-> {1}]]),
    ([pos |-> 72,v |-> [line |-> 71, pre |-> TRUE, result |-> TRUE, size |-> TRUE, order |-> TRUE, cleanup |-> TRUE, tree |-> TRUE, list |-> TRUE, fresh |-> TRUE, keys |-> TRUE],cl |-> <<>>,issued |-> {1},kept |-> {},m |-> <<1>>,base |-> [m |-> <<1>>, cl |-> <<>>, kept |-> {}, issued |-> {1}]]),
    ([pos |-> 73,v |-> [line |-> 72, pre |-> TRUE, result |-> TRUE, size |-> TRUE, order |-> TRUE, cleanup |-> TRUE, tree |-> TRUE, list |-> TRUE, fresh |-> TRUE, keys |-> TRUE],cl |-> <<>>,issued |-> {1},kept |-> {},m |-> <<1>>,base |-> [m |-> <<1>>, cl |-> <<>>, kept |-> {}, issued |-> {1}]]),
    ([pos |-> 74,v |-> [line |-> 73, pre |-> TRUE, result |-> TRUE, size |-> TRUE, order |-> TRUE, cleanup |-> TRUE, tree |-> TRUE, list |-> TRUE, fresh |-> TRUE, keys |-> TRUE],cl |-> <<>>,issued |-> {1},kept |-> {},m |-> <<1>>,base |-> [m |-> <<1>>, cl |-> <<>>, kept |-> {}, issued |-> {1}]]),
    ([pos |-> 75,v |-> [line |-> 74, pre |-> TRUE, result |-> TRUE, size |-> TRUE, order |-> TRUE, cleanup |-> TRUE, tree |-> TRUE, list |-> TRUE, fresh |-> TRUE, keys |-> TRUE],cl |-> <<>>,issued |-> {1},kept |-> {},m |-> <<1>>,base |-> [m |-> <<1>>, cl |-> <<>>, kept |-> {}, issued |-> {1}]]),
    ([pos |-> 76,v |-> [line |-> 75, pre |-> TRUE, result |-> TRUE, size |-> TRUE, order |-> TRUE, cleanup |-> TRUE, tree |-> TRUE, list |-> TRUE, fresh |-> TRUE, keys |-> TRUE],cl |-> <<>>,issued |-> {1, 2},kept |-> {},m |-> (1 :> 1 @@ 7 :> 2),base |-> [m |-> <<1>>, cl |-> <<>>, kept |-> {}, issued |-> {1}]]),
    ([pos |-> 77,v |-> [line |-> 76, pre |-> TRUE, result |-> TRUE, size |-> TRUE, order |-> TRUE, cleanup |-> TRUE, tree |-> TRUE, list |-> TRUE, fresh |-> TRUE, keys |-> TRUE],cl |-> <<>>,issued |-> {1},kept |-> {},m |-> <<1>>,base |-> [m |-> <<1>>, cl |-> <<>>, kept |-> {}, issued |-> {1}]]),
    ([pos |-> 78,v |-> [line |-> 77, pre |-> TRUE, result |-> TRUE, size |-> TRUE, order |-> TRUE, cleanup |-> TRUE, tree |-> TRUE, list |-> TRUE, fresh |-> TRUE, keys |-> TRUE],cl |-> <<>>,issued |-> {1},kept |-> {},m |-> <<1>>,base |-> [m |-> <<1>>, cl |-> <<>>, kept |-> {}, issued |-> {1}]]),
    ([pos |-> 79,v |-> [line |-> 78, pre |-> TRUE, result |-> TRUE, size |-> TRUE, order |-> TRUE, cleanup |-> TRUE, tree |-> TRUE, list |-> TRUE, fresh |-> TRUE, keys |-> TRUE],cl |-> <<>>,issued |-> {1},kept |-> {},m |-> <<1>>,base |-> [m |-> <<1>>, cl |-> <<>>, kept |-> {}, issued |-> {1}]]),
    ([pos |-> 80,v |-> [line |-> 79, pre |-> TRUE, result |-> TRUE, size |-> TRUE, order |-> TRUE, cleanup |-> TRUE, tree |-> TRUE, list |-> TRUE, fresh |-> TRUE, keys |-> TRUE],cl |-> <<>>,issued |-> {1},kept |-> {},m |-> <<1>>,base |-> [m |-> <<1>>, cl |-> <<>>, kept |-> {}, issued |-> {1}]]),
    ([pos |-> 81,v |-> [line |-> 80, pre |-> TRUE, result |-> TRUE, size |-> TRUE, order |-> TRUE, cleanup |-> TRUE, tree |-> TRUE, list |-> TRUE, fresh |-> TRUE, keys |-> TRUE],cl |-> <<1>>,issued |-> {1},kept |-> {},m |-> <<>>,base |-> [m |-> <<1>>, cl |-> <<>>, kept |-> {}, issued |-> {1}]]),
    ([pos |-> 82,v |-> [line |-> 81, pre |-> TRUE, result |-> TRUE, size |-> TRUE, order |-> TRUE, cleanup |-> TRUE, tree |-> TRUE, list |-> TRUE, fresh |-> TRUE, keys |-> TRUE],cl |-> <<>>,issued |-> {1},kept |-> {1},m |-> <<>>,base |-> [m |-> <<1>>, cl |-> <<>>, kept |-> {}, issued |-> {1}]]),
    ([pos |-> 83,v |-> [line |-> 82, pre |-> TRUE, result |-> TRUE, size |-> TRUE, order |-> TRUE, cleanup |-> TRUE, tree |-> TRUE, list |-> TRUE, fresh |-> TRUE, keys |-> TRUE],cl |-> <<>>,issued |-> {1},kept |-> {},m |-> <<1>>,base |-> [m |-> <<1>>, cl |-> <<>>, kept |-> {}, issued |-> {1}]]),
    ([pos |-> 84,v |-> [line |-> 83, pre |-> TRUE, result |-> TRUE, size |-> TRUE, order |-> TRUE, cleanup |-> TRUE, tree |-> TRUE, list |-> TRUE, fresh |-> TRUE, keys |-> TRUE],cl |-> <<>>,issued |-> {},kept |-> {},m |-> <<>>,base |-> [m |-> <<1>>, cl |-> <<>>, kept |-> {}, issued |-> {1}]]),
    ([pos |-> 85,v |-> [line |-> 84, pre |-> TRUE, result |-> TRUE, size |-> TRUE, order |-> TRUE, cleanup |-> TRUE, tree |-> TRUE, list |-> TRUE, fresh |-> TRUE, keys |-> TRUE],cl |-> <<>>,issued |-> {1},kept |-> {},m |-> (2 :> 1),base |-> [m |-> <<1>>, cl |-> <<>>, kept |-> {}, issued |-> {1}]]),
    ([pos |-> 86,v |-> [line |-> 85, pre |-> TRUE, result |-> TRUE, size |-> TRUE, order |-> TRUE, cleanup |-> TRUE, tree |-> TRUE, list |-> TRUE, fresh |-> TRUE, keys |-> TRUE],cl |-> <<>>,issued |-> {1},kept |-> {},m |-> (2 :> 1),base |-> [m |-> (2 :> 1), cl |-> <<>>, kept |-> {}, issued |-> {1}]]),
    ([pos |-> 87,v |-> [line |-> 86, pre |-> TRUE, result |-> TRUE, size |-> TRUE, order |-> TRUE, cleanup |-> TRUE, tree |-> TRUE, list |-> TRUE, fresh |-> TRUE, keys |-> TRUE],cl |-> <<>>,issued |-> {1, 2},kept |-> {},m |-> <<2, 1>>,base |-> [m |-> (2 :> 1), cl |-> <<>>, kept |-> {}, issued |-> {1}]]),
    ([pos |-> 88,v |-> [line |-> 87, pre |-> TRUE, result |-> TRUE, size |-> TRUE, order |-> TRUE, cleanup |-> TRUE, tree |-> TRUE, list |-> TRUE, fresh |-> TRUE, keys |-> TRUE],cl |-> <<>>,issued |-> {1},kept |-> {},m |-> (2 :> 1),base |-> [m |-> (2 :> 1), cl |-> <<>>, kept |-> {}, issued |-> {1}]]),
    ([pos |-> 89,v |-> [line |-> 88, pre |-> TRUE, result |-> TRUE, size |-> TRUE, order |-> TRUE, cleanup |-> TRUE, tree |-> TRUE, list |-> TRUE, fresh |-> TRUE, keys |-> TRUE],cl |-> <<>>,issued |-> {1},kept |-> {},m |-> (2 :> 1),base |-> [m |-> (2 :> 1), cl |-> <<>>, kept |-> {}, issued |-> {1}]]),
    ([pos |-> 90,v |-> [line |-> 89, pre |-> TRUE, result |-> TRUE, size |-> TRUE, order |-> TRUE, cleanup |-> TRUE, tree |-> TRUE, list |-> TRUE, fresh |-> TRUE, keys |-> TRUE],cl |-> <<>>,issued |-> {1},kept |-> {},m |-> (2 :> 1),base |-> [m |-> (2 :> 1), cl |-> <<>>, kept |-> {}, issued |-> {1}]]),
    ([pos |-> 91,v |-> [line |-> 90, pre |-> TRUE, result |-> TRUE, size |-> TRUE, order |-> TRUE, cleanup |-> TRUE, tree |-> TRUE, list |-> TRUE, fresh |-> TRUE, keys |-> TRUE],cl |-> <<>>,issued |-> {1},kept |-> {},m |-> (2 :> 1),base |-> [m |-> (2 :> 1), cl |-> <<>>, kept |-> {}, issued |-> {1}]]),
    ([pos |-> 92,v |-> [line |-> 91, pre |-> TRUE, result |-> TRUE, size |-> TRUE, order |-> TRUE, cleanup |-> TRUE, tree |-> TRUE, list |-> TRUE, fresh |-> TRUE, keys |-> TRUE],cl |-> <<1>>,issued |-> {1, 2},kept |-> {},m |-> (2 :> 2),base |-> [m |-> (2 :> 1), cl |-> <<>>, kept |-> {}, issued |-> {1}]]),
    ([pos |-> 93,v |-> [line |-> 92, pre |-> TRUE, result |-> TRUE, size |-> TRUE, order |-> TRUE, cleanup |-> TRUE, tree |-> TRUE, list |-> TRUE, fresh |-> TRUE, keys |-> TRUE],cl |-> <<>>,issued |-> {1},kept |-> {},m |-> (2 :> 1),base |-> [m |-> (2 :> 1), cl |-> <<>>, kept |-> {}, issued |-> {1}]]),
    ([pos |-> 94,v |-> [line |-> 93, pre |-> TRUE, result |-> TRUE, size |-> TRUE, order |-> TRUE, cleanup |-> TRUE, tree |-> TRUE, list |-> TRUE, fresh |-> TRUE, keys |-> TRUE],cl |-> <<>>,issued |-> {1},kept |-> {},m |-> (2 :> 1),base |-> [m |-> (2 :> 1), cl |-> <<>>, kept |-> {}, issued |-> {1}]]),
    ([pos |-> 95,v |-> [line |-> 94, pre |-> TRUE, result |-> TRUE, size |-> TRUE, order |-> TRUE, cleanup |-> TRUE, tree |-> TRUE, list |-> TRUE, fresh |-> TRUE, keys |-> TRUE],cl |-> <<1>>,issued |-> {1},kept |-> {},m |-> <<>>,base |-> [m |-> (2 :> 1), cl |-> <<>>, kept |-> {}, issued |-> {1}]]),
    ([pos |-> 96,v |-> [line |-> 95, pre |-> TRUE, result |-> TRUE, size |-> TRUE, order |-> TRUE, cleanup |-> TRUE, tree |-> TRUE, list |-> TRUE, fresh |-> TRUE, keys |-> TRUE],cl |-> <<>>,issued |-> {1},kept |-> {1},m |-> <<>>,base |-> [m |-> (2 :> 1), cl |-> <<>>, kept |-> {}, issued |-> {1}]]),
    ([pos |-> 97,v |-> [line |-> 96, pre |-> TRUE, result |-> TRUE, size |-> TRUE, order |-> TRUE, cleanup |-> TRUE, tree |-> TRUE, list |-> TRUE, fresh |-> TRUE, keys |-> TRUE],cl |-> <<>>,issued |-> {1, 2},kept |-> {},m |-> (2 :> 1 @@ 3 :> 2),base |-> [m |-> (2 :> 1), cl |-> <<>>, kept |-> {}, issued |-> {1}]]),
    ([pos |-> 98,v |-> [line |-> 97, pre |-> TRUE, result |-> TRUE, size |-> TRUE, order |-> TRUE, cleanup |-> TRUE, tree |-> TRUE, list |-> TRUE, fresh |-> TRUE, keys |-> TRUE],cl |-> <<>>,issued |-> {1},kept |-> {},m |-> (2 :> 1),base |-> [m |-> (2 :> 1), cl |-> <<>>, kept |-> {}, issued |-> {1}]]),
    ([pos |-> 99,v |-> [line |-> 98, pre |-> TRUE, result |-> TRUE, size |-> TRUE, order |-> TRUE, cleanup |-> TRUE, tree |-> TRUE, list |-> TRUE, fresh |-> TRUE, keys |-> TRUE],cl |-> <<>>,issued |-> {1},kept |-> {},m |-> (2 :> 1),base |-> [m |-> (2 :> 1), cl |-> <<>>, kept |-> {}, issued |-> {1}]]),
    ([pos |-> 100,v |-> [line |-> 99, pre |-> TRUE, result |-> TRUE, size |-> TRUE, order |-> TRUE, cleanup |-> TRUE, tree |-> TRUE, list |-> TRUE, fresh |-> TRUE, keys |-> TRUE],cl |-> <<>>,issued |-> {1},kept |-> {},m |-> (2 :> 1),base |-> [m |-> (2 :> 1), cl |-> <<>>, kept |-> {}, issued |-> {1}]]),
    ([pos |-> 101,v |-> [line |-> 100, pre |-> TRUE, result |-> TRUE, size |-> TRUE, order |-> TRUE, cleanup |-> TRUE, tree |-> TRUE, list |-> TRUE, fresh |-> TRUE, keys |-> TRUE],cl |-> <<>>,issued |-> {1},kept |-> {},m |-> (2 :> 1),base |-> [m |-> (2 :> 1), cl |-> <<>>, kept |-> {}, issued |-> {1}]]),
    ([pos |-> 102,v |-> [line |-> 101, pre |-> TRUE, result |-> TRUE, size |-> TRUE, order |-> TRUE, cleanup |-> TRUE, tree |-> TRUE, list |-> TRUE, fresh |-> TRUE, keys |-> TRUE],cl |-> <<>>,issued |-> {1, 2},kept |-> {},m |-> (2 :> 1 @@ 4 :> 2),base |-> [m |-> (2 :> 1), cl |-> <<>>, kept |-> {}, issued |-> {1}]]),
    ([pos |-> 103,v |-> [line |-> 102, pre |-> TRUE, result |-> TRUE, size |-> TRUE, order |-> TRUE, cleanup |-> TRUE, tree |-> TRUE, list |-> TRUE, fresh |-> TRUE, keys |-> TRUE],cl |-> <<>>,issued |-> {1},kept |-> {},m |-> (2 :> 1),base |-> [m |-> (2 :> 1), cl |-> <<>>, kept |-> {}, issued |-> {1}]]),
    ([pos |-> 104,v |-> [line |-> 103, pre |-> TRUE, result |-> TRUE, size |-> TRUE, order |-> TRUE, cleanup |-> TRUE, tree |-> TRUE, list |-> TRUE, fresh |-> TRUE, keys |-> TRUE],cl |-> <<>>,issued |-> {1},kept |-> {},m |-> (2 :> 1),base |-> [m |-> (2 :> 1), cl |-> <<>>, kept |-> {}, issued |-> {1}]]),
    ([pos |-> 105,v |-> [line |-> 104, pre |-> TRUE, result |-> TRUE, size |-> TRUE, order |-> TRUE, cleanup |-> TRUE, tree |-> TRUE, list |-> TRUE, fresh |-> TRUE, keys |-> TRUE],cl |-> <<>>,issued |-> {1},kept |-> {},m |-> (2 :> 1),base |-> [m |-> (2 :> 1), cl |-> <<>>, kept |-> {}, issued |-> {1}]]),
    ([pos |-> 106,v |-> [line |-> 105, pre |-> TRUE, result |-> TRUE, size |-> TRUE, order |-> TRUE, cleanup |-> TRUE, tree |-> TRUE, list |-> TRUE, fresh |-> TRUE, keys |-> TRUE],cl |-> <<>>,issued |-> {1},kept |-> {},m |-> (2 :> 1),base |-> [m |-> (2 :> 1), cl |-> <<>>, kept |-> {}, issued |-> {1}]]),
    ([pos |-> 107,v |-> [line |-> 106, pre |-> TRUE, result |-> TRUE, size |-> TRUE, order |-> TRUE, cleanup |-> TRUE, tree |-> TRUE, list |-> TRUE, fresh |-> TRUE, keys |-> TRUE],cl |-> <<>>,issued |-> {1, 2},kept |-> {},m |-> (2 :> 1 @@ 5 :> 2),base |-> [m |-> (2 :> 1), cl |-> <<>>, kept |-> {}, issued |-> {1}]]),
    ([pos |-> 108,v |-> [line |-> 107, pre |-> TRUE, result |-> TRUE, size |-> TRUE, order |-> TRUE, cleanup |-> TRUE, tree |-> TRUE, list |-> TRUE, fresh |-> TRUE, keys |-> TRUE],cl |-> <<>>,issued |-> {1},kept |-> {},m |-> (2 :> 1),base |-> [m |-> (2 :> 1), cl |-> <<>>, kept |-> {}, issued |-> {1}]]),
    ([pos |-> 109,v |-> [line |-> 108, pre |-> TRUE, result |-> TRUE, size |-> TRUE, order |-> TRUE, cleanup |-> TRUE, tree |-> TRUE, list |-> TRUE, fresh |-> TRUE, keys |-> TRUE],cl |-> <<>>,issued |-> {1},kept |-> {},m |-> (2 :> 1),base |-> [m |-> (2 :> 1), cl |-> <<>>, kept |-> {}, issued |-> {1}]]),
    ([pos |-> 110,v |-> [line |-> 109, pre |-> TRUE, result |-> TRUE, size |-> TRUE, order |-> TRUE, cleanup |-> TRUE, tree |-> TRUE, list |-> TRUE, fresh |-> TRUE, keys |-> TRUE],cl |-> <<>>,issued |-> {1},kept |-> {},m |-> (2 :> 1),base |-> [m |-> (2 :> 1), cl |-> <<>>, kept |-> {}, issued |-> {1}]]),
    ([pos |-> 111,v |-> [line |-> 110, pre |-> TRUE, result |-> TRUE, size |-> TRUE, order |-> TRUE, cleanup |-> TRUE, tree |-> TRUE, list |-> TRUE, fresh |-> TRUE, keys |-> TRUE],cl |-> <<>>,issued |-> {1},kept |-> {},m |-> (2 :> 1),base |-> [m |-> (2 :> 1), cl |-> <<>>, kept |-> {}, issued |-> {1}]]),
    ([pos |-> 112,v |-> [line |-> 111, pre |-> TRUE, result |-> TRUE, size |-> TRUE, order |-> TRUE, cleanup |-> TRUE, tree |-> TRUE, list |-> TRUE, fresh |-> TRUE, keys |-> TRUE],cl |-> <<>>,issued |-> {1, 2},kept |-> {},m |-> (2 :> 1 @@ 6 :> 2),base |-> [m |-> (2 :> 1), cl |-> <<>>, kept |-> {}, issued |-> {1}]]),
    ([pos |-> 113,v |-> [line |-> 112, pre |-> TRUE, result |-> TRUE, size |-> TRUE, order |-> TRUE, cleanup |-> TRUE, tree |-> TRUE, list |-> TRUE, fresh |-> TRUE, keys |-> TRUE],cl |-> <<>>,issued |-> {1},kept |-> {},m |-> (2 :> 1),base |-> [m |-> (2 :> 1), cl |-> <<>>, kept |-> {}, issued |-> {1}]]),
    ([pos |-> 114,v |-> [line |-> 113, pre |-> TRUE, result |-> TRUE, size |-> TRUE, order |-> TRUE, cleanup |-> TRUE, tree |-> TRUE, list |-> TRUE, fresh |-> TRUE, keys |-> TRUE],cl |-> <<>>,issued |-> {1},kept |-> {},m |-> (2 :> 1),base |-> [m |-> (2 :> 1), cl |-> <<>>, kept |-> {}, issued |-> {1}]]),
    ([pos |-> 115,v |-> [line |-> 114, pre |-> TRUE, result |-> TRUE, size |-> TRUE, order |-> TRUE, cleanup |-> TRUE, tree |-> TRUE, list |-> TRUE, fresh |-> TRUE, keys |-> TRUE],cl |-> <<>>,issued |-> {1},kept |-> {},m |-> (2 :> 1),base |-> [m |-> (2 :> 1), cl |-> <<>>, kept |-> {}, issued |-> {1}]]),
    ([pos |-> 116,v |-> [line |-> 115, pre |-> TRUE, result |-> TRUE, size |-> TRUE, order |-> TRUE, cleanup |-> TRUE, tree |-> TRUE, list |-> TRUE, fresh |-> TRUE, keys |-> TRUE],cl |-> <<>>,issued |-> {1},kept |-> {},m |-> (2 :> 1),base |-> [m |-> (2 :> 1), cl |-> <<>>, kept |-> {}, issued |-> {1}]]),
    ([pos |-> 117,v |-> [line |-> 116, pre |-> TRUE, result |-> TRUE, size |-> TRUE, order |-> TRUE, cleanup |-> TRUE, tree |-> TRUE, list |-> TRUE, fresh |-> TRUE, keys |-> TRUE],cl |-> <<>>,issued |-> {1, 2},kept |-> {},m |-> (2 :> 1 @@ 7 :> 2),base |-> [m |-> (2 :> 1), cl |-> <<>>, kept |-> {}, issued |-> {1}]]),
    ([pos |-> 118,v |-> [line |-> 117, pre |-> TRUE, result |-> TRUE, size |-> TRUE, order |-> TRUE, cleanup |-> TRUE, tree |-> TRUE, list |-> TRUE, fresh |-> TRUE, keys |-> TRUE],cl |-> <<>>,issued |-> {1},kept |-> {},m |-> (2 :> 1),base |-> [m |-> (2 :> 1), cl |-> <<>>, kept |-> {}, issued |-> {1}]]),
    ([pos |-> 119,v |-> [line |-> 118, pre |-> TRUE, result |-> TRUE, size |-> TRUE, order |-> TRUE, cleanup |-> TRUE, tree |-> TRUE, list |-> TRUE, fresh |-> TRUE, keys |-> TRUE],cl |-> <<>>,issued |-> {1},kept |-> {},m |-> (2 :> 1),base |-> [m |-> (2 :> 1), cl |-> <<>>, kept |-> {}, issued |-> {1}]]),
    ([pos |-> 120,v |-> [line |-> 119, pre |-> TRUE, result |-> TRUE, size |-> TRUE, order |-> TRUE, cleanup |-> TRUE, tree |-> TRUE, list |-> TRUE, fresh |-> TRUE, keys |-> TRUE],cl |-> <<>>,issued |-> {1},kept |-> {},m |-> (2 :> 1),base |-> [m |-> (2 :> 1), cl |-> <<>>, kept |-> {}, issued |-> {1}]]),
    ([pos |-> 121,v |-> [line |-> 120, pre |-> TRUE, result |-> TRUE, size |-> TRUE, order |-> TRUE, cleanup |-> TRUE, tree |-> TRUE, list |-> TRUE, fresh |-> TRUE, keys |-> TRUE],cl |-> <<>>,issued |-> {1},kept |-> {},m |-> (2 :> 1),base |-> [m |-> (2 :> 1), cl |-> <<>>, kept |-> {}, issued |-> {1}]]),
    ([pos |-> 122,v |-> [line |-> 121, pre |-> TRUE, result |-> TRUE, size |-> TRUE, order |-> TRUE, cleanup |-> TRUE, tree |-> TRUE, list |-> TRUE, fresh |-> TRUE, keys |-> TRUE],cl |-> <<1>>,issued |-> {1},kept |-> {},m |-> <<>>,base |-> [m |-> (2 :> 1), cl |-> <<>>, kept |-> {}, issued |-> {1}]]),
    ([pos |-> 123,v |-> [line |-> 122, pre |-> TRUE, result |-> TRUE, size |-> TRUE, order |-> TRUE, cleanup |-> TRUE, tree |-> TRUE, list |-> TRUE, fresh |-> TRUE, keys |-> TRUE],cl |-> <<>>,issued |-> {1},kept |-> {1},m |-> <<>>,base |-> [m |-> (2 :> 1), cl |-> <<>>, kept |-> {}, issued |-> {1}]]),
    ([pos |-> 124,v |-> [line |-> 123, pre |-> TRUE, result |-> TRUE, size |-> TRUE, order |-> TRUE, cleanup |-> TRUE, tree |-> TRUE, list |-> TRUE, fresh |-> TRUE, keys |-> TRUE],cl |-> <<>>,issued |-> {1},kept |-> {},m |-> (2 :> 1),base |-> [m |-> (2 :> 1), cl |-> <<>>, kept |-> {}, issued |-> {1}]]),
    ([pos |-> 125,v |-> [line |-> 124, pre |-> TRUE, result |-> TRUE, size |-> TRUE, order |-> TRUE, cleanup |-> TRUE, tree |-> TRUE, list |-> TRUE, fresh |-> TRUE, keys |-> TRUE],cl |-> <<>>,issued |-> {},kept |-> {},m |-> <<>>,base |-> [m |-> (2 :> 1), cl |-> <<>>, kept |-> {}, issued |-> {1}]]),
    ([pos |-> 126,v |-> [line |-> 125, pre |-> TRUE, result |-> TRUE, size |-> TRUE, order |-> TRUE, cleanup |-> TRUE, tree |-> TRUE, list |-> TRUE, fresh |-> TRUE, keys |-> TRUE],cl |-> <<>>,issued |-> {1},kept |-> {},m |-> (3 :> 1),base |-> [m |-> (2 :> 1), cl |-> <<>>, kept |-> {}, issued |-> {1}]]),
    ([pos |-> 127,v |-> [line |-> 126, pre |-> TRUE, result |-> TRUE, size |-> TRUE, order |-> TRUE, cleanup |-> TRUE, tree |-> TRUE, list |-> TRUE, fresh |-> TRUE, keys |-> TRUE],cl |-> <<>>,issued |-> {1},kept |-> {},m |-> (3 :> 1),base |-> [m |-> (3 :> 1), cl |-> <<>>, kept |-> {}, issued |-> {1}]]),
    ([pos |-> 128,v |-> [line |-> 127, pre |-> TRUE, result |-> TRUE, size |-> TRUE, order |-> TRUE, cleanup |-> TRUE, tree |-> TRUE, list |-> TRUE, fresh |-> TRUE, keys |-> TRUE],cl |-> <<>>,issued |-> {1, 2},kept |-> {},m |-> (1 :> 2 @@ 3 :> 1),base |-> [m |-> (3 :> 1), cl |-> <<>>, kept |-> {}, issued |-> {1}]]),
    ([pos |-> 129,v |-> [line |-> 128, pre |-> TRUE, result |-> TRUE, size |-> TRUE, order |-> TRUE, cleanup |-> TRUE, tree |-> TRUE, list |-> TRUE, fresh |-> TRUE, keys |-> TRUE],cl |-> <<>>,issued |-> {1},kept |-> {},m |-> (3 :> 1),base |-> [m |-> (3 :> 1), cl |-> <<>>, kept |-> {}, issued |-> {1}]]),
    ([pos |-> 130,v |-> [line |-> 129, pre |-> TRUE, result |-> TRUE, size |-> TRUE, order |-> TRUE, cleanup |-> TRUE, tree |-> TRUE, list |-> TRUE, fresh |-> TRUE, keys |-> TRUE],cl |-> <<>>,issued |-> {1},kept |-> {},m |-> (3 :> 1),base |-> [m |-> (3 :> 1), cl |-> <<>>, kept |-> {}, issued |-> {1}]]),
    ([pos |-> 131,v |-> [line |-> 130, pre |-> TRUE, result |-> TRUE, size |-> TRUE, order |-> TRUE, cleanup |-> TRUE, tree |-> TRUE, list |-> TRUE, fresh |-> TRUE, keys |-> TRUE],cl |-> <<>>,issued |-> {1},kept |-> {},m |-> (3 :> 1),base |-> [m |-> (3 :> 1), cl |-> <<>>, kept |-> {}, issued |-> {1}]]),
    ([pos |-> 132,v |-> [line |-> 131, pre |-> TRUE, result |-> TRUE, size |-> TRUE, order |-> TRUE, cleanup |-> TRUE, tree |-> TRUE, list |-> TRUE, fresh |-> TRUE, keys |-> TRUE],cl |-> <<>>,issued |-> {1},kept |-> {},m |-> (3 :> 1),base |-> [m |-> (3 :> 1), cl |-> <<>>, kept |-> {}, issued |-> {1}]]),
    ([pos |-> 133,v |-> [line |-> 132, pre |-> TRUE, result |-> TRUE, size |-> TRUE, order |-> TRUE, cleanup |-> TRUE, tree |-> TRUE, list |-> TRUE, fresh |-> TRUE, keys |-> TRUE],cl |-> <<>>,issued |-> {1, 2},kept |-> {},m |-> (2 :> 2 @@ 3 :> 1),base |-> [m |-> (3 :> 1), cl |-> <<>>, kept |-> {}, issued |-> {1}]]),
    ([pos |-> 134,v |-> [line |-> 133, pre |-> TRUE, result |-> TRUE, size |-> TRUE, order |-> TRUE, cleanup |-> TRUE, tree |-> TRUE, list |-> TRUE, fresh |-> TRUE, keys |-> TRUE],cl |-> <<>>,issued |-> {1},kept |-> {},m |-> (3 :> 1),base |-> [m |-> (3 :> 1), cl |-> <<>>, kept |-> {}, issued |-> {1}]]),
    ([pos |-> 135,v |-> [line |-> 134, pre |-> TRUE, result |-> TRUE, size |-> TRUE, order |-> TRUE, cleanup |-> TRUE, tree |-> TRUE, list |-> TRUE, fresh |-> TRUE, keys |-> TRUE],cl |-> <<>>,issued |-> {1},kept |-> {},m |-> (3 :> 1),base |-> [m |-> (3 :> 1), cl |-> <<>>, kept |-> {}, issued |-> {1}]]),
    ([pos |-> 136,v |-> [line |-> 135, pre |-> TRUE, result |-> TRUE, size |-> TRUE, order |-> TRUE, cleanup |-> TRUE, tree |-> TRUE, list |-> TRUE, fresh |-> TRUE, keys |-> TRUE],cl |-> <<>>,issued |-> {1},kept |-> {},m |-> (3 :> 1),base |-> [m |-> (3 :> 1), cl |-> <<>>, kept |-> {}, issued |-> {1}]]),
    ([pos |-> 137,v |-> [line |-> 136, pre |-> TRUE, result |-> TRUE, size |-> TRUE, order |-> TRUE, cleanup |-> TRUE, tree |-> TRUE, list |-> TRUE, fresh |-> TRUE, keys |-> TRUE],cl |-> <<>>,issued |-> {1},kept |-> {},m |-> (3 :> 1),base |-> [m |-> (3 :> 1), cl |-> <<>>, kept |-> {}, issued |-> {1}]]),
    ([pos |-> 138,v |-> [line |-> 137, pre |-> TRUE, result |-> TRUE, size |-> TRUE, order |-> TRUE, cleanup |-> TRUE, tree |-> TRUE, list |-> TRUE, fresh |-> TRUE, keys |-> TRUE],cl |-> <<1>>,issued |-> {1, 2},kept |-> {},m |-> (3 :> 2),base |-> [m |-> (3 :> 1), cl |-> <<>>, kept |-> {}, issued |-> {1}]]),
    ([pos |-> 139,v |-> [line |-> 138, pre |-> TRUE, result |-> TRUE, size |-> TRUE, order |-> TRUE, cleanup |-> TRUE, tree |-> TRUE, list |-> TRUE, fresh |-> TRUE, keys |-> TRUE],cl |-> <<>>,issued |-> {1},kept |-> {},m |-> (3 :> 1),base |-> [m |-> (3 :> 1), cl |-> <<>>, kept |-> {}, issued |-> {1}]]),
    ([pos |-> 140,v |-> [line |-> 139, pre |-> TRUE, result |-> TRUE, size |-> TRUE, order |-> TRUE, cleanup |-> TRUE, tree |-> TRUE, list |-> TRUE, fresh |-> TRUE, keys |-> TRUE],cl |-> <<>>,issued |-> {1},kept |-> {},m |-> (3 :> 1),base |-> [m |-> (3 :> 1), cl |-> <<>>, kept |-> {}, issued |-> {1}]]),
    ([pos |-> 141,v |-> [line |-> 140, pre |-> TRUE, result |-> TRUE, size |-> TRUE, order |-> TRUE, cleanup |-> TRUE, tree |-> TRUE, list |-> TRUE, fresh |-> TRUE, keys |-> TRUE],cl |-> <<1>>,issued |-> {1},kept |-> {},m |-> <<>>,base |-> [m |-> (3 :> 1), cl |-> <<>>, kept |-> {}, issued |-> {1}]]),
    ([pos |-> 142,v |-> [line |-> 141, pre |-> TRUE, result |-> TRUE, size |-> TRUE, order |-> TRUE, cleanup |-> TRUE, tree |-> TRUE, list |-> TRUE, fresh |-> TRUE, keys |-> TRUE],cl |-> <<>>,issued |-> {1},kept |-> {1},m |-> <<>>,base |-> [m |-> (3 :> 1), cl |-> <<>>, kept |-> {}, issued |-> {1}]]),
    ([pos |-> 143,v |-> [line |-> 142, pre |-> TRUE, result |-> TRUE, size |-> TRUE, order |-> TRUE, cleanup |-> TRUE, tree |-> TRUE, list |-> TRUE, fresh |-> TRUE, keys |-> TRUE],cl |-> <<>>,issued |-> {1, 2},kept |-> {},m |-> (3 :> 1 @@ 4 :> 2),base |-> [m |-> (3 :> 1), cl |-> <<>>, kept |-> {}, issued |-> {1}]]),
    ([pos |-> 144,v |-> [line |-> 143, pre |-> TRUE, result |-> TRUE, size |-> TRUE, order |-> TRUE, cleanup |-> TRUE, tree |-> TRUE, list |-> TRUE, fresh |-> TRUE, keys |-> TRUE],cl |-> <<>>,issued |-> {1},kept |-> {},m |-> (3 :> 1),base |-> [m |-> (3 :> 1), cl |-> <<>>, kept |-> {}, issued |-> {1}]]),
    ([pos |-> 145,v |-> [line |-> 144, pre |-> TRUE, result |-> TRUE, size |-> TRUE, order |-> TRUE, cleanup |-> TRUE, tree |-> TRUE, list |-> TRUE, fresh |-> TRUE, keys |-> TRUE],cl |-> <<>>,issued |-> {1},kept |-> {},m |-> (3 :> 1),base |-> [m |-> (3 :> 1), cl |-> <<>>, kept |-> {}, issued |-> {1}]]),
    ([pos |-> 146,v |-> [line |-> 145, pre |-> TRUE, result |-> TRUE, size |-> TRUE, order |-> TRUE, cleanup |-> TRUE, tree |-> TRUE, list |-> TRUE, fresh |-> TRUE, keys |-> TRUE],cl |-> <<>>,issued |-> {1},kept |-> {},m |-> (3 :> 1),base |-> [m |-> (3 :> 1), cl |-> <<>>, kept |-> {}, issued |-> {1}]]),
    ([pos |-> 147,v |-> [line |-> 146, pre |-> TRUE, result |-> TRUE, size |-> TRUE, order |-> TRUE, cleanup |-> TRUE, tree |-> TRUE, list |-> TRUE, fresh |-> TRUE, keys |-> TRUE],cl |-> <<>>,issued |-> {1},kept |-> {},m |-> (3 :> 1),base |-> [m |-> (3 :> 1), cl |-> <<>>, kept |-> {}, issued |-> {1}]]),
    ([pos |-> 148,v |-> [line |-> 147, pre |-> TRUE, result |-> TRUE, size |-> TRUE, order |-> TRUE, cleanup |-> TRUE, tree |-> TRUE, list |-> TRUE, fresh |-> TRUE, keys |-> TRUE],cl |-> <<>>,issued |-> {1, 2},kept |-> {},m |-> (3 :> 1 @@ 5 :> 2),base |-> [m |-> (3 :> 1), cl |-> <<>>, kept |-> {}, issued |-> {1}]]),
    ([pos |-> 149,v |-> [line |-> 148, pre |-> TRUE, result |-> TRUE, size |-> TRUE, order |-> TRUE, cleanup |-> TRUE, tree |-> TRUE, list |-> TRUE, fresh |-> TRUE, keys |-> TRUE],cl |-> <<>>,issued |-> {1},kept |-> {},m |-> (3 :> 1),base |-> [m |-> (3 :> 1), cl |-> <<>>, kept |-> {}, issued |-> {1}]]),
    ([pos |-> 150,v |-> [line |-> 149, pre |-> TRUE, result |-> TRUE, size |-> TRUE, order |-> TRUE, cleanup |-> TRUE, tree |-> TRUE, list |-> TRUE, fresh |-> TRUE, keys |-> TRUE],cl |-> <<>>,issued |-> {1},kept |-> {},m |-> (3 :> 1),base |-> [m |-> (3 :> 1), cl |-> <<>>, kept |-> {}, issued |-> {1}]]),
    ([pos |-> 151,v |-> [line |-> 150, pre |-> TRUE, result |-> TRUE, size |-> TRUE, order |-> TRUE, cleanup |-> TRUE, tree |-> TRUE, list |-> TRUE, fresh |-> TRUE, keys |-> TRUE],cl |-> <<>>,issued |-> {1},kept |-> {},m |-> (3 :> 1),base |-> [m |-> (3 :> 1), cl |-> <<>>, kept |-> {}, issued |-> {1}]]),
    ([pos |-> 152,v |-> [line |-> 151, pre |-> TRUE, result |-> TRUE, size |-> TRUE, order |-> TRUE, cleanup |-> TRUE, tree |-> TRUE, list |-> TRUE, fresh |-> TRUE, keys |-> TRUE],cl |-> <<>>,issued |-> {1},kept |-> {},m |-> (3 :> 1),base |-> [m |-> (3 :> 1), cl |-> <<>>, kept |-> {}, issued |-> {1}]]),
    ([pos |-> 153,v |-> [line |-> 152, pre |-> TRUE, result |-> TRUE, size |-> TRUE, order |-> TRUE, cleanup |-> TRUE, tree |-> TRUE, list |-> TRUE, fresh |-> TRUE, keys |-> TRUE],cl |-> <<>>,issued |-> {1, 2},kept |-> {},m |-> (3 :> 1 @@ 6 :> 2),base |-> [m |-> (3 :> 1), cl |-> <<>>, kept |-> {}, issued |-> {1}]]),
    ([pos |-> 154,v |-> [line |-> 153, pre |-> TRUE, result |-> TRUE, size |-> TRUE, order |-> TRUE, cleanup |-> TRUE, tree |-> TRUE, list |-> TRUE, fresh |-> TRUE, keys |-> TRUE],cl |-> <<>>,issued |-> {1},kept |-> {},m |-> (3 :> 1),base |-> [m |-> (3 :> 1), cl |-> <<>>, kept |-> {}, issued |-> {1}]]),
    ([pos |-> 155,v |-> [line |-> 154, pre |-> TRUE, result |-> TRUE, size |-> TRUE, order |-> TRUE, cleanup |-> TRUE, tree |-> TRUE, list |-> TRUE, fresh |-> TRUE, keys |-> TRUE],cl |-> <<>>,issued |-> {1},kept |-> {},m |-> (3 :> 1),base |-> [m |-> (3 :> 1), cl |-> <<>>, kept |-> {}, issued |-> {1}]]),
    ([pos |-> 156,v |-> [line |-> 155, pre |-> TRUE, result |-> TRUE, size |-> TRUE, order |-> TRUE, cleanup |-> TRUE, tree |-> TRUE, list |-> TRUE, fresh |-> TRUE, keys |-> TRUE],cl |-> <<>>,issued |-> {1},kept |-> {},m |-> (3 :> 1),base |-> [m |-> (3 :> 1), cl |-> <<>>, kept |-> {}, issued |-> {1}]]),
    ([pos |-> 157,v |-> [line |-> 156, pre |-> TRUE, result |-> TRUE, size |-> TRUE, order |-> TRUE, cleanup |-> TRUE, tree |-> TRUE, list |-> TRUE, fresh |-> TRUE, keys |-> TRUE],cl |-> <<>>,issued |-> {1},kept |-> {},m |-> (3 :> 1),base |-> [m |-> (3 :> 1), cl |-> <<>>, kept |-> {}, issued |-> {1}]]),
    ([pos |-> 158,v |-> [line |-> 157, pre |-> TRUE, result |-> TRUE, size |-> TRUE, order |-> TRUE, cleanup |-> TRUE, tree |-> TRUE, list |-> TRUE, fresh |-> TRUE, keys |-> TRUE],cl |-> <<>>,issued |-> {1, 2},kept |-> {},m |-> (3 :> 1 @@ 7 :> 2),base |-> [m |-> (3 :> 1), cl |-> <<>>, kept |-> {}, issued |-> {1}]]),
    ([pos |-> 159,v |-> [line |-> 158, pre |-> TRUE, result |-> TRUE, size |-> TRUE, order |-> TRUE, cleanup |-> TRUE, tree |-> TRUE, list |-> TRUE, fresh |-> TRUE, keys |-> TRUE],cl |-> <<>>,issued |-> {1},kept |-> {},m |-> (3 :> 1),base |-> [m |-> (3 :> 1), cl |-> <<>>, kept |-> {}, issued |-> {1}]]),
    ([pos |-> 160,v |-> [line |-> 159, pre |-> TRUE, result |-> TRUE, size |-> TRUE, order |-> TRUE, cleanup |-> TRUE, tree |-> TRUE, list |-> TRUE, fresh |-> TRUE, keys |-> TRUE],cl |-> <<>>,issued |-> {1},kept |-> {},m |-> (3 :> 1),base |-> [m |-> (3 :> 1), cl |-> <<>>, kept |-> {}, issued |-> {1}]]),
    ([pos |-> 161,v |-> [line |-> 160, pre |-> TRUE, result |-> TRUE, size |-> TRUE, order |-> TRUE, cleanup |-> TRUE, tree |-> TRUE, list |-> TRUE, fresh |-> TRUE, keys |-> TRUE],cl |-> <<>>,issued |-> {1},kept |-> {},m |-> (3 :> 1),base |-> [m |-> (3 :> 1), cl |-> <<>>, kept |-> {}, issued |-> {1}]]),
    ([pos |-> 162,v |-> [line |-> 161, pre |-> TRUE, result |-> TRUE, size |-> TRUE, order |-> TRUE, cleanup |-> TRUE, tree |-> TRUE, list |-> TRUE, fresh |-> TRUE, keys |-> TRUE],cl |-> <<>>,issued |-> {1},kept |-> {},m |-> (3 :> 1),base |-> [m |-> (3 :> 1), cl |-> <<>>, kept |-> {}, issued |-> {1}]]),
    ([pos |-> 163,v |-> [line |-> 162, pre |-> TRUE, result |-> TRUE, size |-> TRUE, order |-> TRUE, cleanup |-> TRUE, tree |-> TRUE, list |-> TRUE, fresh |-> TRUE, keys |-> TRUE],cl |-> <<1>>,issued |-> {1},kept |-> {},m |-> <<>>,base |-> [m |-> (3 :> 1), cl |-> <<>>, kept |-> {}, issued |-> {1}]]),
    ([pos |-> 164,v |-> [line |-> 163, pre |-> TRUE, result |-> TRUE, size |-> TRUE, order |-> TRUE, cleanup |-> TRUE, tree |-> TRUE, list |-> TRUE, fresh |-> TRUE, keys |-> TRUE],cl |-> <<>>,issued |-> {1},kept |-> {1},m |-> <<>>,base |-> [m |-> (3 :> 1), cl |-> <<>>, kept |-> {}, issued |-> {1}]]),
    ([pos |-> 165,v |-> [line |-> 164, pre |-> TRUE, result |-> TRUE, size |-> TRUE, order |-> TRUE, cleanup |-> TRUE, tree |-> TRUE, list |-> TRUE, fresh |-> TRUE, keys |-> TRUE],cl |-> <<>>,issued |-> {1},kept |-> {},m |-> (3 :> 1),base |-> [m |-> (3 :> 1), cl |-> <<>>, kept |-> {}, issued |-> {1}]]),
    ([pos |-> 166,v |-> [line |-> 165, pre |-> TRUE, result |-> TRUE, size |-> TRUE, order |-> TRUE, cleanup |-> TRUE, tree |-> TRUE, list |-> TRUE, fresh |-> TRUE, keys |-> TRUE],cl |-> <<>>,issued |-> {},kept |-> {},m |-> <<>>,base |-> [m |-> (3 :> 1), cl |-> <<>>, kept |-> {}, issued |-> {1}]]),
    ([pos |-> 167,v |-> [line |-> 166, pre |-> TRUE, result |-> TRUE, size |-> TRUE, order |-> TRUE, cleanup |-> TRUE, tree |-> TRUE, list |-> TRUE, fresh |-> TRUE, keys |-> TRUE],cl |-> <<>>,issued |-> {1},kept |-> {},m |-> (4 :> 1),base |-> [m |-> (3 :> 1), cl |-> <<>>, kept |-> {}, issued |-> {1}]]),
    ([pos |-> 168,v |-> [line |-> 167, pre |-> TRUE, result |-> TRUE, size |-> TRUE, order |-> TRUE, cleanup |-> TRUE, tree |-> TRUE, list |-> TRUE, fresh |-> TRUE, keys |-> TRUE],cl |-> <<>>,issued |-> {1},kept |-> {},m |-> (4 :> 1),base |-> [m |-> (4 :> 1), cl |-> <<>>, kept |-> {}, issued |-> {1}]]),
    ([pos |-> 169,v |-> [line |-> 168, pre |-> TRUE, result |-> TRUE, size |-> TRUE, order |-> TRUE, cleanup |-> TRUE, tree |-> TRUE, list |-> TRUE, fresh |-> TRUE, keys |-> TRUE],cl |-> <<>>,issued |-> {1, 2},kept |-> {},m |-> (1 :> 2 @@ 4 :> 1),base |-> [m |-> (4 :> 1), cl |-> <<>>, kept |-> {}, issued |-> {1}]]),
    ([pos |-> 170,v |-> [line |-> 169, pre |-> TRUE, result |-> TRUE, size |-> TRUE, order |-> TRUE, cleanup |-> TRUE, tree |-> TRUE, list |-> TRUE, fresh |-> TRUE, keys |-> TRUE],cl |-> <<>>,issued |-> {1},kept |-> {},m |-> (4 :> 1),base |-> [m |-> (4 :> 1), cl |-> <<>>, kept |-> {}, issued |-> {1}]]),
    ([pos |-> 171,v |-> [line |-> 170, pre |-> TRUE, result |-> TRUE, size |-> TRUE, order |-> TRUE, cleanup |-> TRUE, tree |-> TRUE, list |-> TRUE, fresh |-> TRUE, keys |-> TRUE],cl |-> <<>>,issued |-> {1},kept |-> {},m |-> (4 :> 1),base |-> [m |-> (4 :> 1), cl |-> <<>>, kept |-> {}, issued |-> {1}]]),
    ([pos |-> 172,v |-> [line |-> 171, pre |-> TRUE, result |-> TRUE, size |-> TRUE, order |-> TRUE, cleanup |-> TRUE, tree |-> TRUE, list |-> TRUE, fresh |-> TRUE, keys |-> TRUE],cl |-> <<>>,issued |-> {1},kept |-> {},m |-> (4 :> 1),base |-> [m |-> (4 :> 1), cl |-> <<>>, kept |-> {}, issued |-> {1}]]),
    ([pos |-> 173,v |-> [line |-> 172, pre |-> TRUE, result |-> TRUE, size |-> TRUE, order |-> TRUE, cleanup |-> TRUE, tree |-> TRUE, list |-> TRUE, fresh |-> TRUE, keys |-> TRUE],cl |-> <<>>,issued |-> {1},kept |-> {},m |-> (4 :> 1),base |-> [m |-> (4 :> 1), cl |-> <<>>, kept |-> {}, issued |-> {1}]]),
    ([pos |-> 174,v |-> [line |-> 173, pre |-> TRUE, result |-> TRUE, size |-> TRUE, order |-> TRUE, cleanup |-> TRUE, tree |-> TRUE, list |-> TRUE, fresh |-> TRUE, keys |-> TRUE],cl |-> <<>>,issued |-> {1, 2},kept |-> {},m |-> (2 :> 2 @@ 4 :> 1),base |-> [m |-> (4 :> 1), cl |-> <<>>, kept |-> {}, issued |-> {1}]]),
    ([pos |-> 175,v |-> [line |-> 174, pre |-> TRUE, result |-> TRUE, size |-> TRUE, order |-> TRUE, cleanup |-> TRUE, tree |-> TRUE, list |-> TRUE, fresh |-> TRUE, keys |-> TRUE],cl |-> <<>>,issued |-> {1},kept |-> {},m |-> (4 :> 1),base |-> [m |-> (4 :> 1), cl |-> <<>>, kept |-> {}, issued |-> {1}]]),
    ([pos |-> 176,v |-> [line |-> 175, pre |-> TRUE, result |-> TRUE, size |-> TRUE, order |-> TRUE, cleanup |-> TRUE, tree |-> TRUE, list |-> TRUE, fresh |-> TRUE, keys |-> TRUE],cl |-> <<>>,issued |-> {1},kept |-> {},m |-> (4 :> 1),base |-> [m |-> (4 :> 1), cl |-> <<>>, kept |-> {}, issued |-> {1}]]),
    ([pos |-> 177,v |-> [line |-> 176, pre |-> TRUE, result |-> TRUE, size |-> TRUE, order |-> TRUE, cleanup |-> TRUE, tree |-> TRUE, list |-> TRUE, fresh |-> TRUE, keys |-> TRUE],cl |-> <<>>,issued |-> {1},kept |-> {},m |-> (4 :> 1),base |-> [m |-> (4 :> 1), cl |-> <<>>, kept |-> {}, issued |-> {1}]]),
    ([pos |-> 178,v |-> [line |-> 177, pre |-> TRUE, result |-> TRUE, size |-> TRUE, order |-> TRUE, cleanup |-> TRUE, tree |-> TRUE, list |-> TRUE, fresh |-> TRUE, keys |-> TRUE],cl |-> <<>>,issued |-> {1},kept |-> {},m |-> (4 :> 1),base |-> [m |-> (4 :> 1), cl |-> <<>>, kept |-> {}, issued |-> {1}]]),
    ([pos |-> 179,v |-> [line |-> 178, pre |-> TRUE, result |-> TRUE, size |-> TRUE, order |-> TRUE, cleanup |-> TRUE, tree |-> TRUE, list |-> TRUE, fresh |-> TRUE, keys |-> TRUE],cl |-> <<>>,issued |-> {1, 2},kept |-> {},m |-> (3 :> 2 @@ 4 :> 1),base |-> [m |-> (4 :> 1), cl |-> <<>>, kept |-> {}, issued |-> {1}]]),
    ([pos |-> 180,v |-> [line |-> 179, pre |-> TRUE, result |-> TRUE, size |-> TRUE, order |-> TRUE, cleanup |-> TRUE, tree |-> TRUE, list |-> TRUE, fresh |-> TRUE, keys |-> TRUE],cl |-> <<>>,issued |-> {1},kept |-> {},m |-> (4 :> 1),base |-> [m |-> (4 :> 1), cl |-> <<>>, kept |-> {}, issued |-> {1}]]),
    ([pos |-> 181,v |-> [line |-> 180, pre |-> TRUE, result |-> TRUE, size |-> TRUE, order |-> TRUE, cleanup |-> TRUE, tree |-> TRUE, list |-> TRUE, fresh |-> TRUE, keys |-> TRUE],cl |-> <<>>,issued |-> {1},kept |-> {},m |-> (4 :> 1),base |-> [m |-> (4 :> 1), cl |-> <<>>, kept |-> {}, issued |-> {1}]]),
    ([pos |-> 182,v |-> [line |-> 181, pre |-> TRUE, result |-> TRUE, size |-> TRUE, order |-> TRUE, cleanup |-> TRUE, tree |-> TRUE, list |-> TRUE, fresh |-> TRUE, keys |-> TRUE],cl |-> <<>>,issued |-> {1},kept |-> {},m |-> (4 :> 1),base |-> [m |-> (4 :> 1), cl |-> <<>>, kept |-> {}, issued |-> {1}]]),
    ([pos |-> 183,v |-> [line |-> 182, pre |-> TRUE, result |-> TRUE, size |-> TRUE, order |-> TRUE, cleanup |-> TRUE, tree |-> TRUE, list |-> TRUE, fresh |-> TRUE, keys |-> TRUE],cl |-> <<>>,issued |-> {1},kept |-> {},m |-> (4 :> 1),base |-> [m |-> (4 :> 1), cl |-> <<>>, kept |-> {}, issued |-> {1}]]),
    ([pos |-> 184,v |-> [line |-> 183, pre |-> TRUE, result |-> TRUE, size |-> TRUE, order |-> TRUE, cleanup |-> TRUE, tree |-> TRUE, list |-> TRUE, fresh |-> TRUE, keys |-> TRUE],cl |-> <<1>>,issued |-> {1, 2},kept |-> {},m |-> (4 :> 2),base |-> [m |-> (4 :> 1), cl |-> <<>>, kept |-> {}, issued |-> {1}]]),
    ([pos |-> 185,v |-> [line |-> 184, pre |-> TRUE, result |-> TRUE, size |-> TRUE, order |-> TRUE, cleanup |-> TRUE, tree |-> TRUE, list |-> TRUE, fresh |-> TRUE, keys |-> TRUE],cl |-> <<>>,issued |-> {1},kept |-> {},m |-> (4 :> 1),base |-> [m |-> (4 :> 1), cl |-> <<>>, kept |-> {}, issued |-> {1}]]),
    ([pos |-> 186,v |-> [line |-> 185, pre |-> TRUE, result |-> TRUE, size |-> TRUE, order |-> TRUE, cleanup |-> TRUE, tree |-> TRUE, list |-> TRUE, fresh |-> TRUE, keys |-> TRUE],cl |-> <<>>,issued |-> {1},kept |-> {},m |-> (4 :> 1),base |-> [m |-> (4 :> 1), cl |-> <<>>, kept |-> {}, issued |-> {1}]]),
    ([pos |-> 187,v |-> [line |-> 186, pre |-> TRUE, result |-> TRUE, size |-> TRUE, order |-> TRUE, cleanup |-> TRUE, tree |-> TRUE, list |-> TRUE, fresh |-> TRUE, keys |-> TRUE],cl |-> <<1>>,issued |-> {1},kept |-> {},m |-> <<>>,base |-> [m |-> (4 :> 1), cl |-> <<>>, kept |-> {}, issued |-> {1}]]),
    ([pos |-> 188,v |-> [line |-> 187, pre |-> TRUE, result |-> TRUE, size |-> TRUE, order |-> TRUE, cleanup |-> TRUE, tree |-> TRUE, list |-> TRUE, fresh |-> TRUE, keys |-> TRUE],cl |-> <<>>,issued |-> {1},kept |-> {1},m |-> <<>>,base |-> [m |-> (4 :> 1), cl |-> <<>>, kept |-> {}, issued |-> {1}]]),
    ([pos |-> 189,v |-> [line |-> 188, pre |-> TRUE, result |-> TRUE, size |-> TRUE, order |-> TRUE, cleanup |-> TRUE, tree |-> TRUE, list |-> TRUE, fresh |-> TRUE, keys |-> TRUE],cl |-> <<>>,issued |-> {1, 2},kept |-> {},m |-> (4 :> 1 @@ 5 :> 2),base |-> [m |-> (4 :> 1), cl |-> <<>>, kept |-> {}, issued |-> {1}]]),
    ([pos |-> 190,v |-> [line |-> 189, pre |-> TRUE, result |-> TRUE, size |-> TRUE, order |-> TRUE, cleanup |-> TRUE, tree |-> TRUE, list |-> TRUE, fresh |-> TRUE, keys |-> TRUE],cl |-> <<>>,issued |-> {1},kept |-> {},m |-> (4 :> 1),base |-> [m |-> (4 :> 1), cl |-> <<>>, kept |-> {}, issued |-> {1}]]),
    ([pos |-> 191,v |-> [line |-> 190, pre |-> TRUE, result |-> TRUE, size |-> TRUE, order |-> TRUE, cleanup |-> TRUE, tree |-> TRUE, list |-> TRUE, fresh |-> TRUE, keys |-> TRUE],cl |-> <<>>,issued |-> {1},kept |-> {},m |-> (4 :> 1),base |-> [m |-> (4 :> 1), cl |-> <<>>, kept |-> {}, issued |-> {1}]]),
    ([pos |-> 192,v |-> [line |-> 191, pre |-> TRUE, result |-> TRUE, size |-> TRUE, order |-> TRUE, cleanup |-> TRUE, tree |-> TRUE, list |-> TRUE, fresh |-> TRUE, keys |-> TRUE],cl |-> <<>>,issued |-> {1},kept |-> {},m |-> (4 :> 1),base |-> [m |-> (4 :> 1), cl |-> <<>>, kept |-> {}, issued |-> {1}]]),
    ([pos |-> 193,v |-> [line |-> 192, pre |-> TRUE, result |-> TRUE, size |-> TRUE, order |-> TRUE, cleanup |-> TRUE, tree |-> TRUE, list |-> TRUE, fresh |-> TRUE, keys |-> TRUE],cl |-> <<>>,issued |-> {1},kept |-> {},m |-> (4 :> 1),base |-> [m |-> (4 :> 1), cl |-> <<>>, kept |-> {}, issued |-> {1}]]),
    ([pos |-> 194,v |-> [line |-> 193, pre |-> TRUE, result |-> TRUE, size |-> TRUE, order |-> TRUE, cleanup |-> TRUE, tree |-> TRUE, list |-> TRUE, fresh |-> TRUE, keys |-> TRUE],cl |-> <<>>,issued |-> {1, 2},kept |-> {},m |-> (4 :> 1 @@ 6 :> 2),base |-> [m |-> (4 :> 1), cl |-> <<>>, kept |-> {}, issued |-> {1}]]),
    ([pos |-> 195,v |-> [line |-> 194, pre |-> TRUE, result |-> TRUE, size |-> TRUE, order |-> TRUE, cleanup |-> TRUE, tree |-> TRUE, list |-> TRUE, fresh |-> TRUE, keys |-> TRUE],cl |-> <<>>,issued |-> {1},kept |-> {},m |-> (4 :> 1),base |-> [m |-> (4 :> 1), cl |-> <<>>, kept |-> {}, issued |-> {1}]]),
    ([pos |-> 196,v |-> [line |-> 195, pre |-> TRUE, result |-> TRUE, size |-> TRUE, order |-> TRUE, cleanup |-> TRUE, tree |-> TRUE, list |-> TRUE, fresh |-> TRUE, keys |-> TRUE],cl |-> <<>>,issued |-> {1},kept |-> {},m |-> (4 :> 1),base |-> [m |-> (4 :> 1), cl |-> <<>>, kept |-> {}, issued |-> {1}]]),
    ([pos |-> 197,v |-> [line |-> 196, pre |-> TRUE, result |-> TRUE, size |-> TRUE, order |-> TRUE, cleanup |-> TRUE, tree |-> TRUE, list |-> TRUE, fresh |-> TRUE, keys |-> TRUE],cl |-> <<>>,issued |-> {1},kept |-> {},m |-> (4 :> 1),base |-> [m |-> (4 :> 1), cl |-> <<>>, kept |-> {}, issued |-> {1}]]),
    ([pos |-> 198,v |-> [line |-> 197, pre |-> TRUE, result |-> TRUE, size |-> TRUE, order |-> TRUE, cleanup |-> TRUE, tree |-> TRUE, list |-> TRUE, fresh |-> TRUE, keys |-> TRUE],cl |-> <<>>,issued |-> {1},kept |-> {},m |-> (4 :> 1),base |-> [m |-> (4 :> 1), cl |-> <<>>, kept |-> {}, issued |-> {1}]]),
    ([pos |-> 199,v |-> [line |-> 198, pre |-> TRUE, result |-> TRUE, size |-> TRUE, order |-> TRUE, cleanup |-> TRUE, tree |-> TRUE, list |-> TRUE, fresh |-> TRUE, keys |-> TRUE],cl |-> <<>>,issued |-> {1, 2},kept |-> {},m |-> (4 :> 1 @@ 7 :> 2),base |-> [m |-> (4 :> 1), cl |-> <<>>, kept |-> {}, issued |-> {1}]]),
    ([pos |-> 200,v |-> [line |-> 199, pre |-> TRUE, result |-> TRUE, size |-> TRUE, order |-> TRUE, cleanup |-> TRUE, tree |-> TRUE, list |-> TRUE, fresh |-> TRUE, keys |-> TRUE],cl |-> <<>>,issued |-> {1},kept |-> {},m |-> (4 :> 1),base |-> [m |-> (4 :> 1), cl |-> <<>>, kept |-> {}, issued |-> {1}]]),
    ([pos |-> 201,v |-> [line |-> 200, pre |-> TRUE, result |-> TRUE, size |-> TRUE, order |-> TRUE, cleanup |-> TRUE, tree |-> TRUE, list |-> TRUE, fresh |-> TRUE, keys |-> TRUE],cl |-> <<>>,issued |-> {1},kept |-> {},m |-> (4 :> 1),base |-> [m |-> (4 :> 1), cl |-> <<>>, kept |-> {}, issued |-> {1}]]),
    ([pos |-> 202,v |-> [line |-> 201, pre |-> TRUE, result |-> TRUE, size |-> TRUE, order |-> TRUE, cleanup |-> TRUE, tree |-> TRUE, list |-> TRUE, fresh |-> TRUE, keys |-> TRUE],cl |-> <<>>,issued |-> {1},kept |-> {},m |-> (4 :> 1),base |-> [m |-> (4 :> 1), cl |-> <<>>, kept |-> {}, issued |-> {1}]]),
    ([pos |-> 203,v |-> [line |-> 202, pre |-> TRUE, result |-> TRUE, size |-> TRUE, order |-> TRUE, cleanup |-> TRUE, tree |-> TRUE, list |-> TRUE, fresh |-> TRUE, keys |-> TRUE],cl |-> <<>>,issued |-> {1},kept |-> {},m |-> (4 :> 1),base |-> [m |-> (4 :> 1), cl |-> <<>>, kept |-> {}, issued |-> {1}]]),
    ([pos |-> 204,v |-> [line |-> 203, pre |-> TRUE, result |-> TRUE, size |-> TRUE, order |-> TRUE, cleanup |-> FALSE, tree |-> TRUE, list |-> TRUE, fresh |-> TRUE, keys |-> TRUE],cl |-> <<>>,issued |-> {1},kept |-> {},m |-> <<>>,base |-> [m |-> (4 :> 1), cl |-> <<>>, kept |-> {}, issued |-> {1}]])
    >>
----


=============================================================================

---- CONFIG SetTrace_TTrace_1790557365 ----

INVARIANT
    _inv

CHECK_DEADLOCK
    \* CHECK_DEADLOCK off because of PROPERTY or INVARIANT above.
    FALSE

INIT
    _init

NEXT
    _next

CONSTANT
    _TETrace <- _trace

ALIAS
    _expression
=============================================================================
\* Generated on Mon Sep 28 01:02:47 UTC 2026