"""C04 Replies affect only the client instance they were asked about."""
from vlib import iauthrun as R
from vlib import iauthdiff as DF

LEVEL = "model_checking"
TITLE = "replies affect only the client instance they were asked about (stray replies are no-ops)"
OWN = {"P04_stray"}

KINDS = ["OKA", "NO", "MORE", "AGAIN", "UNL", "OK", "OKE"]


def stray_events(rng, events, pos, svcs):
    """Replies that are strays whatever the daemon's state is after events[:pos]."""
    serial = 0
    cur, stale = {}, {}
    for e in events[:pos]:
        if e["e"] == "C":
            serial += 1
            if e["id"] in cur:
                stale.setdefault(e["id"], []).append(cur[e["id"]])
            cur[e["id"]] = serial
    if not cur:
        return []
    i = rng.choice(sorted(cur))
    names = [s["name"] for s in svcs] or ["a1.svc"]
    curtag = "%x_%x" % (i, cur[i])
    cands = [("zz.unknown", curtag), (rng.choice(names) + "2", curtag), (rng.choice(names) + ".evil", curtag),
             (rng.choice(names)[:-1], curtag), (rng.choice(names), "%x" % i), (rng.choice(names), "%x_" % i),
             (rng.choice(names), "_%x" % cur[i]), (rng.choice(names), curtag + "x"), (rng.choice(names), "zz_1"),
             (rng.choice(names), "3f_%x" % cur[i]), (rng.choice(names), "%x_ffff" % i)]
    for s in stale.get(i, []):
        cands.append((rng.choice(names), "%x_%x" % (i, s)))
        cands.append((rng.choice(names), "%x_%x" % (i, s)))
    svc, tag = rng.choice(cands)
    return [{"e": "X", "svc": svc, "tag": tag, "kind": rng.choice(KINDS), "acct": ["acs", 9], "text": ["ts", 12],
             "trail": "", "oid": i, "st": 1}]


def make_jobs(ctx, behaviours, svcs, per):
    jobs = []
    for n, b in enumerate(behaviours):
        base = [e for e in b if not e.get("st") and e["e"] != "J"]
        if len(base) < 2:
            continue
        for rep in range(per):
            full, pairs = [], []
            # strays the model put at the end of this behaviour are kept where they are
            positions = sorted(ctx.rng.randrange(1, len(base) + 1) for _ in range(1 + ctx.rng.randrange(2)))
            for k, e in enumerate(base):
                while positions and positions[0] == k:
                    positions.pop(0)
                    full.extend(stray_events(ctx.rng, base, k, svcs))
                pairs.append((len(full), k))
                full.append(e)
            for e in b:
                if e.get("st") and e["e"] == "X":
                    full.append(e)
            while positions:
                positions.pop(0)
                full.extend(stray_events(ctx.rng, base, len(base), svcs))
            tail = R.probe_tail(base, svcs) + R._cleanup_events(base)
            for k, e in enumerate(tail):
                pairs.append((len(full), len(base) + k))
                full.append(e)
            jobs.append((len(jobs), full, base + tail, pairs, False))
    return jobs


def differential(ctx, name, table, nb, per, **mc):
    svcs = R.SERVICE_TABLES[table]
    r, beh = R.model_check(ctx, name, table, want_behaviours=True, **mc)
    ctx.model_checked(r)
    behaviours = [[s["e"] for s in b] for b in beh]
    ctx.rng.shuffle(behaviours)
    jobs = make_jobs(ctx, behaviours[:nb], svcs, per)
    res = DF.diff_runs(ctx, jobs, svcs, tag=name)
    bad, nlines = DF.validate_diffs(ctx, res)
    # the runs themselves are validated against the contract too (P04_stray: a stray step prints nothing)
    tres = [{"trace": x["trace"], "lines": x["lines"]} for x in res]
    viol = []
    for x in res:
        v, d = R.validate_trace(ctx, x["trace"], x["lines"])
        import json
        idx = json.load(open(x["trace"] + ".idx"))
        for f in v:
            jid, which, si = idx[f["l"] - 1]
            viol.append((jid, which, si, sorted(f["v"])))
    jobmap = {j[0]: j for j in jobs}
    seen = set()
    for (jid, k) in bad[:40]:
        j = jobmap[jid]
        sig = "diff: " + R.hist_short(j[1][:j[3][k][0] + 1])
        if sig in seen or len(seen) > 5:
            continue
        seen.add(sig)
        # second opinion: run the pair again
        res2 = DF.diff_runs(ctx, [j], svcs, nproc=1, tag=name + "-again%d" % len(seen))
        bad2, _ = DF.validate_diffs(ctx, res2)
        if not bad2:
            ctx.note("difference did not repeat: " + sig)
            continue
        pl = DF.pair_line(res2, jid, bad2[0][1])
        ctx.violation("a stray reply changed later behaviour: step %d of [%s] prints %s with the stray line(s) in the "
                      "stream and %s without" % (bad2[0][1], R.hist_short(j[1]), pl["a"], pl["b"]),
                      "P04_stray", sig, {"kind": "iauth-diff", "table": table, "svcs": svcs, "with": j[1], "without": j[2],
                                        "pairs": j[3]})
    for (jid, which, si, conj) in viol:
        if "P04_stray" in conj or "crash" in conj:
            j = jobmap[jid]
            evs = j[1] if which == "a" else j[2]
            sig = "P04_stray: " + R.hist_short(evs[:si + 1])
            f2, _ = R.run_single(ctx, evs, svcs)
            if any(g["kind"] == "V" and ("P04_stray" in g["conjuncts"] or "crash" in g["conjuncts"]) for g in f2):
                ctx.violation("stray reply produced output / daemon died: step %d of [%s]" % (si, R.hist_short(evs[:si + 1])),
                              "P04_stray", sig, {"kind": "iauth-history", "table": table, "svcs": svcs, "timeout_on": True,
                                                "events": evs, "failing_step": si, "opts": {}})
    steps = sum(x["steps"] for x in res)
    ctx.cov["evaluations"] += steps
    ctx.cov["traces_validated_against_impl"] += 2 * len(jobs)
    ctx.cov["differential_pairs"] = ctx.cov.get("differential_pairs", 0) + len(jobs)
    ctx.cov["differential_steps_compared"] = ctx.cov.get("differential_steps_compared", 0) + nlines
    if jobs:
        ctx.sample({"with_stray": R.hist_short(jobs[0][1]), "without": R.hist_short(jobs[0][2])})
    ctx.note("differential %s: %d pairs of real runs (with / without stray replies), %d steps compared by TLC, %d differ"
             % (name, len(jobs), nlines, len(bad)))
    return len(jobs)


def run(ctx):
    ctx.cov["rule"] = ("(i) behaviours of B x A with stray replies (stale tag after id reuse, malformed tag, unknown / "
                       "not-awaited service, every reply kind) enabled in every model state, replayed and validated against "
                       "P04_stray (a stray step prints nothing); (ii) differential: sampled behaviours with 1-2 guaranteed-stray "
                       "replies spliced at random positions vs the same history without them, both on fresh daemons, followed by "
                       "a distinguishing tail; TLC (DiffTrace) requires equal output on every other step; distinct = distinct "
                       "event sequences")
    ctx.assumptions += ["tags that spell the current (id, serial) differently (leading zeros, upper case) are not generated (DESIGN.md 9)"]
    if ctx.tier == "quick":
        st = R.standard(ctx, [R.Plan("qr", "S_q1", emit_mod=180, max_inst=2, max_pw=1, stray=1, also=R.crowd_also(200) + R.wrap_also(6)),
                              # one service name is a prefix of the other; an entry with an unknown protocol word
                              R.Plan("pref", "S_pref", emit_mod=200, max_inst=1, max_pw=2, stray=1)], OWN,
                        need=("replies", "accept_D", "accept_R"))
        n = differential(ctx, "dq", "S_t1d", nb=350, per=1, max_inst=1, max_pw=2, emit_mod=20, stray=1)
    else:
        st = R.standard(ctx, [R.Plan("qr", "S_q1", emit_mod=60, max_inst=2, max_pw=1, stray=2, also=R.crowd_also(1500) + R.wrap_also(60)),
                              R.Plan("qr3", "S_t1d", emit_mod=20, max_inst=3, max_pw=1, stray=2),
                              R.Plan("two", "S_t1d", emit_mod=40, ids="Ids2", max_inst=1, max_pw=0, pw_on=False, stray=1),
                              R.Plan("pref", "S_pref", emit_mod=25, max_inst=1, max_pw=2, stray=2),
                              R.Plan("unk", "S_unk", emit_mod=40, max_inst=1, max_pw=2, stray=2)], OWN,
                        need=("replies", "accept_D", "accept_R"))
        n = differential(ctx, "dq", "S_t1d", nb=1500, per=2, max_inst=2, max_pw=1, emit_mod=4, stray=1)
        n += differential(ctx, "dq1", "S_q1", nb=1500, per=2, max_inst=2, max_pw=1, emit_mod=80, stray=1)
        n += differential(ctx, "dc", "S_t1c", nb=1500, per=2, max_inst=1, max_pw=2, emit_mod=120, stray=0)


def replay(ctx, body):
    rp = body["replay"]
    if rp.get("kind") == "iauth-diff":
        res = DF.diff_runs(ctx, [(0, rp["with"], rp["without"], [tuple(p) for p in rp["pairs"]], False)], rp["svcs"], nproc=1)
        bad, n = DF.validate_diffs(ctx, res)
        if bad:
            ctx.violation("a stray reply changed later behaviour (replay)", "P04_stray", body["signature"], rp)
        ctx.cov.update(evaluations=n, distinct_nontrivial=2, rule="replay of one recorded pair", samples=[R.hist_short(rp["with"])])
    else:
        R.replay_file(ctx, body, OWN)
