CONSTANTS
  ARGV = 2
  Bug <- BugEmptyBreak
  Alphabet <- Sigma7
  MaxLen = 3
  MaxChunk = 3
  Streams <- AllStreams
  LiveIds <- Live05
INIT RInit
NEXT RNext
INVARIANT DeliveredIsContract
INVARIANT BufferIsTail
INVARIANT NoLineWaiting
INVARIANT ArgvInBounds
INVARIANT AbsentParamIsNull
INVARIANT EofClean
