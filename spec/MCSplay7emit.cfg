SPECIFICATION MCSpec
CONSTANTS Keys = {1, 2, 3, 4, 5, 6, 7}
VIEW View
INVARIANTS TypeOK SearchTreeOrder TreeIsAllNodes ListIsInOrder CountOK
PROPERTY RefinesDirected
ACTION_CONSTRAINT Emit
