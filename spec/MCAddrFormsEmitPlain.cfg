CONSTANTS
  EMIT = TRUE
  NFAM = 2
  Bug = {}
INIT Init
NEXT Next
INVARIANTS Emit DocSane DenotesNet RejectNotPlain AlgoDoc AlgoPlain
