\* C20: model mutant: module_dfs() as before commit 47cba46; TLC must report B_StartsComplete (shortest: m1 -> {m2, m3}, m3 -> m2, listed m2, m1; with MaxN = 4 also the diamond)
SPECIFICATION Spec
CONSTANTS
    Source = "enum"
    MaxN = 3
    SelfLoops = FALSE
    DepOrders = "asc"
    WithMissing = FALSE
    WithAnti = FALSE
    Profiles = "full"
    Bug = "D12"
INVARIANTS
    TypeOK LoadingIsInnermostCtor RdependsMirrorsDepends SetEmptyAtExit NoGhostInGoodCase
    B_CtorOnce B_DepsConstructedFirst B_PostInitOnce B_PostInitAfterDeps B_DtorBeforeDeps
    B_StartsComplete B_StopsClean B_AbortsWithError B_NeverRunsPartial
