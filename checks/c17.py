"""C17 A reload reaches the decision modules."""
import json
from collections import Counter
from concurrent.futures import ThreadPoolExecutor

from vlib import classrun as CR
from vlib import reloadrun as RR
from vlib.core import MachineryError

LEVEL = "model_checking"
TITLE = ("a reload (SIGUSR1) reaches the decision modules: afterwards the services queried (and their protocol) and the "
         "class rules applied are those of the new file, as in a daemon freshly started on it")

# contract conjuncts (IAuthContract via ReloadTrace) whose failure on the RELOADED run is this property's business
OWN = {"P17_config", "P06_queries", "crash", "exit", "sanitizer"}
OWN_CLS = {"P11_class", "P11_uline"}

PLAN = {
    "quick": {
        # (name, model kwargs, print 1 history in N)
        "svc_models": [("q1", dict(names="Names2", words="Words5", max_rl=1, pre=True, keep_old=False), 2),
                       # two reloads in a row around one service (mistyped, then corrected, while a client waits for it ...)
                       ("q2r", dict(names="Names1", words="Words3", max_rl=2, pre=True, keep_old=False), 1)],
        "svc_workers": 10,
        "cls_models": [("MCReloadClass_q.cfg", 1)],
        "cls_chains": 480, "cls_random": 1, "cls_parts": 6,
        "nproc": 12,
    },
    "thorough": {
        "svc_models": [("q1k", dict(names="Names2", words="Words5", max_rl=1, pre=True, keep_old=True), 8),
                       ("t1", dict(names="Names3", words="Words5", max_rl=1, pre=False, keep_old=False), 3),
                       ("t3n", dict(names="Names3", words="Words3", max_rl=1, pre=True, keep_old=False), 30),
                       ("t2r", dict(names="Names2", words="Words5", max_rl=2, pre=True, keep_old=False), 25),
                       ("tfree", dict(names="Names2", words="Words3", max_rl=1, pre=False, free=True, keep_old=False), 400)],
        "svc_workers": 16,
        "cls_models": [("MCReloadClass_q.cfg", 1), ("MCReloadClass_t.cfg", 1), ("MCReloadClass_t2.cfg", 2)],
        "cls_chains": 2400, "cls_random": 2, "cls_parts": 12, "wide": 24,
        "nproc": 14,
    },
}

MODEL_MUTANTS = [("svc", "RB_D10"), ("svc", "RB_D11"), ("svc", "RB_KEEPCONF"), ("svc", "RB_NORETYPE"),
                 ("cls", "RB_D10"), ("cls", "RB_NOKIDHOOK"), ("cls", "RB_ACCUM")]

KNOWN_TYPES = ("login", "login-ipr", "dronecheck", "combined")


# ---- classification (statistics / anti-vacuity only) ------------------------------------------------------------
def svc_edit_kinds(old, new):
    o = {s["name"]: s["type"] for s in old}
    n = {s["name"]: s["type"] for s in new}
    k = set()
    for name in set(o) | set(n):
        if name not in o:
            k.add("added" if n[name] in KNOWN_TYPES else "added-unknown-type")
        elif name not in n:
            k.add("removed")
        elif o[name] != n[name]:
            ko, kn = o[name] in KNOWN_TYPES, n[name] in KNOWN_TYPES
            k.add("retyped" if ko and kn else "known->unknown" if ko else "unknown->known" if kn else "unknown->unknown")
    return k or {"same"}


def svc_pre_variant(job):
    """what the earlier client was doing when the (first) reload came (from the model's in-use count)"""
    stage, inuse = "idle", 0
    for x in job["events"]:
        e = x["ev"]
        if e["e"] in ("RL", "RLF"):
            break
        if x["w"] == "pre":
            inuse = x.get("n", 1)
            if e["e"] == "D":
                return "disconnected-while-awaited"
            stage = {"C": "announced", "P": "announced", "H": "pending", "X": "pending"}.get(e["e"], stage)
    if stage == "pending" and inuse == 0:
        return "completed"
    return stage


def make_sanity_jobs(jobs, limit=4):
    """A failed reload must leave the old behaviour (C14/C15 territory; drift-level here): histories whose reload did
    not change the file, with the reload replaced by a syntactically invalid file."""
    out = []
    for j in jobs:
        if len(j["files"]) == 2 and j["files"][0] == j["files"][1] and j["files"][0]:
            ev = [dict(x, ev={"e": "RLF"}) if x["ev"]["e"] == "RL" else x for x in j["events"]]
            out.append({"old": j["old"], "events": ev, "files": [j["old"]], "sanity": True, "omit_empty": False})
            if len(out) >= limit:
                break
    return out


def wide_jobs(rng, count):
    """Service tables at and around the size at which iauth_xquery's per-client bit masks are full (32 services, one
    bit each): a table that is, was or becomes full, then shrinks, then gets services with names never seen before -
    slots retired by one reload must be usable by the next.  Same job format as the TLC-printed histories; the probe is
    the scripted one (? config, C, P, H, OKA from every service of the last file; replies to services that were not
    asked are stray and must be ignored by both daemons alike)."""
    probe_id = 6

    def table(names):
        return [{"name": n, "type": KNOWN_TYPES[(len(n) + sum(map(ord, n))) % len(KNOWN_TYPES)]} for n in names]

    jobs = []
    for k in range(count):
        full = ["w%02d.svc" % i for i in range(32)]
        keep = sorted(rng.sample(full, rng.choice((0, 1, 3, 30))))
        fresh = ["new%d.svc" % i for i in range(rng.choice((1, 2, 2)))]
        shape = k % 4
        if shape == 0:          # starts full, shrinks, grows with new names
            files = [full, keep, keep + fresh]
        elif shape == 1:        # becomes full by a reload
            files = [keep, full, keep, keep + fresh]
        elif shape == 2:        # 31 -> 32 -> some replaced by new names in one edit
            files = [full[:31], full, full[:32 - len(fresh)] + fresh]
        else:                   # full, emptied, full again under other names
            files = [full, [], ["x%02d.svc" % i for i in range(32)]]
        files = [table(f) for f in files]
        ev = [{"ev": {"e": "RL", "svcs": f}, "w": "rl", "n": 0} for f in files[1:]]
        ev.append({"ev": {"e": "QC"}, "w": "probe", "n": 0})
        ev.append({"ev": {"e": "C", "id": probe_id, "addr": "A%x" % probe_id, "port": 1000 + probe_id}, "w": "probe", "n": 1})
        ev.append({"ev": {"e": "P", "id": probe_id, "shape": "ok", "modes": ["+", "x"], "cred": ["p1", 10], "raw": ["P+xp1", 0]},
                   "w": "probe", "n": 1})
        ev.append({"ev": {"e": "H", "id": probe_id}, "w": "probe", "n": 1})
        for s_ in files[-1]:
            ev.append({"ev": {"e": "X", "svc": s_["name"], "tag": "%x_1" % probe_id, "kind": "OKA", "acct": ["ac1", 8],
                              "text": ["t1", 9], "trail": "", "oid": probe_id, "st": 0}, "w": "probe", "n": 1})
        jobs.append({"old": files[0], "events": ev, "files": files, "sanity": False, "omit_empty": (k % 2 == 1), "wide": True})
    return jobs


def _probe_events(files_last, serial, probe_id=6):
    ev = [{"ev": {"e": "QC"}, "w": "probe", "n": 0},
          {"ev": {"e": "C", "id": probe_id, "addr": "A%x" % probe_id, "port": 1000 + probe_id}, "w": "probe", "n": 1},
          {"ev": {"e": "P", "id": probe_id, "shape": "ok", "modes": ["+", "x"], "cred": ["p1", 10], "raw": ["P+xp1", 0]},
           "w": "probe", "n": 1},
          {"ev": {"e": "H", "id": probe_id}, "w": "probe", "n": 1}]
    for s_ in files_last:
        ev.append({"ev": {"e": "X", "svc": s_["name"], "tag": "%x_%x" % (probe_id, serial), "kind": "OKA", "acct": ["ac1", 8],
                          "text": ["t1", 9], "trail": "", "oid": probe_id, "st": 0}, "w": "probe", "n": 1})
    return ev


def typo_jobs():
    """An entry edited twice in a row - mistyped, then corrected (to the old or to another protocol); removed, then put
    back - while an earlier client is idle / announced / waiting for that very service / done.  TLC's histories are one
    shortest path per transition, so of the many two-reload chains that lead to the same model state only one is ever
    printed; these chains are spelled out instead (same job format, judged by the same TLC specifications)."""
    pre_id = 5
    pre_ev = [{"e": "C", "id": pre_id, "addr": "A%x" % pre_id, "port": 1000 + pre_id},
              {"e": "P", "id": pre_id, "shape": "ok", "modes": ["+", "x"], "cred": ["p1", 10], "raw": ["P+xp1", 0]},
              {"e": "H", "id": pre_id}]
    jobs = []
    k = 0
    for t1 in KNOWN_TYPES:
        for mid in ("bogus", None, "gopher"):
            for t2 in KNOWN_TYPES:
                for stage in (0, 2, 3, 4):
                    k += 1
                    if (k * 7 + len(t1) + len(t2)) % 3:       # a third of the grid, spread over all dimensions
                        continue
                    other = [{"name": "b.svc", "type": "login"}] if k % 2 else []
                    mk = lambda t: ([{"name": "a.svc", "type": t}] if t else []) + other
                    files = [mk(t1), mk(mid), mk(t2)]
                    ev = [{"ev": e, "w": "pre", "n": 1} for e in pre_ev[:min(stage, 3)]]
                    if stage == 4:
                        ev += [{"ev": {"e": "X", "svc": s_["name"], "tag": "%x_1" % pre_id, "kind": "OKA", "acct": ["ac1", 8],
                                       "text": ["t1", 9], "trail": "", "oid": pre_id, "st": 0}, "w": "pre", "n": 1}
                               for s_ in files[0]]
                    ev += [{"ev": {"e": "RL", "svcs": f}, "w": "rl", "n": 0} for f in files[1:]]
                    ev += _probe_events(files[-1], 2 if stage else 1)
                    jobs.append({"old": files[0], "events": ev, "files": files, "sanity": False, "omit_empty": (k % 4 == 1),
                                 "xr_rules": (k % 5 == 0)})
    return jobs


# ---- reporting -----------------------------------------------------------------------------------------------
def strip_pre(job):
    ev = [x for x in job["events"] if x["w"] != "pre"]
    return dict(job, events=ev)


def first_bad_desc(res, bad):
    k = min(k for (_, k) in bad)
    for p in RR.read_lines(res["diff"]):
        if p["k"] == k:
            return k, p
    return k, None


def report_svc(ctx, jobs, bad, viol, drift, max_reports=6):
    nd = 0
    for (ji, which, si, want) in drift:
        nd += 1
        if nd <= 3:
            chain, seq = RR.svc_sig(jobs[ji])
            ctx.drift("implementation-shaped spec (IAuth + Reload!MergeSvc) predicted different output at record %d of the %s run "
                      "of %s [%s]" % (si, "reloaded" if which == "L" else "fresh", chain, seq), {"predicted": want})
    by_job = {}
    for (ji, k) in bad:
        by_job.setdefault(ji, {"diff": [], "conj": []})["diff"].append(k)
    for (ji, which, si, conj) in viol:
        mine = [c for c in conj if c in OWN]
        other = [c for c in conj if c not in OWN]
        if other:
            ctx.note("conjunct(s) %s (owned by other checks) failed at record %d of the %s run of job %d" % (other, si, which, ji))
        if mine and which == "L":
            by_job.setdefault(ji, {"diff": [], "conj": []})["conj"].extend(mine)
        elif mine:
            ctx.note("conjunct(s) %s failed on a FRESH daemon (no reload involved; not C17): job %d" % (mine, ji))
    reported = 0
    for ji in sorted(by_job):
        if reported >= max_reports:
            break
        job = jobs[ji]
        # second opinion on a fresh pair of processes; prefer the history without the earlier client
        final = None
        for cand in ([strip_pre(job)] if any(x["w"] == "pre" for x in job["events"]) else []) + [job]:
            bad2, viol2, _, res2 = RR.run_svc_single(ctx, cand)
            conj2 = sorted({c for (_, w, _, cs) in viol2 if w == "L" for c in cs if c in OWN})
            if bad2 or conj2:
                final = (cand, bad2, conj2, res2)
                break
        chain, seq = RR.svc_sig(job)
        if final is None:
            ctx.note("difference did not repeat on a fresh pair of processes: reload %s [%s] (not reported)" % (chain, seq))
            continue
        cand, bad2, conj2, res2 = final
        chain, seq = RR.svc_sig(cand)
        if bad2:
            k, p = first_bad_desc(res2, bad2)
            probes = [x["ev"] for x in cand["events"] if x["w"] == "probe"]
            what = ("after reload %s the reloaded daemon and a daemon freshly started on the new file differ at probe step %d (%s): "
                    "reloaded prints %s, fresh prints %s" % (chain, k, RR.R_short(probes[k]), json.dumps(p["a"])[:400], json.dumps(p["b"])[:400]))
            sig = "reload: %s: probe %s [%s]" % (chain, RR.R_short(probes[k]), seq)
            conj = "C17_fresh_equiv"
        else:
            what = "after reload %s the reloaded daemon violates %s [%s]" % (chain, conj2, seq)
            sig = "reload: %s: %s [%s]" % (chain, "+".join(conj2), seq)
            conj = "+".join(conj2)
        if cand.get("sanity"):
            ctx.drift("a FAILED reload changed later behaviour (C14/C15 territory, not judged here): " + what, None)
            continue
        reported += 1
        ctx.violation(what, conj, sig, {"kind": "reload-svc", "job": cand})
    return nd


def report_cls(ctx, jobs, bad, viol, drift, max_reports=6):
    nd = 0
    for (ji, t, ci, want) in drift:
        nd += 1
        if nd <= 3:
            ctx.drift("implementation-shaped spec predicted a different verdict after reload %d of %s for client %s"
                      % (t, RR.cls_chain_short(jobs[ji]), CR.cli_short(jobs[ji]["clis"][ci])), {"predicted": want})
    by_job = {}
    for (ji, t, ci) in bad:
        by_job.setdefault(ji, []).append(("diff", t, ci, None))
    for (ji, t, ci, conj, want) in viol:
        mine = [c for c in conj if c in OWN_CLS]
        if mine:
            by_job.setdefault(ji, []).append(("+".join(mine), t, ci, want))
    reported = 0
    for ji in sorted(by_job):
        if reported >= max_reports:
            break
        job = jobs[ji]
        _, t0, ci0, _ = sorted(by_job[ji], key=lambda x: (x[1], x[2]))[0]
        # minimise: only the failing client (and two-table chain when the first reload already fails); then the whole job
        cands = []
        if ci0 >= 0:
            cands.append(dict(job, clis=[job["clis"][ci0]], pre="idle"))
        cands.append(job)
        final = None
        for cand in cands:
            bad2, viol2, _, res2 = RR.run_cls_single(ctx, cand)
            v2 = [(t, ci, c, w) for (_, t, ci, c, w) in viol2 if set(c) & OWN_CLS]
            if bad2 or v2:
                final = (cand, bad2, v2, res2)
                break
        if final is None:
            ctx.note("class-rule difference did not repeat on fresh processes: %s (not reported)" % RR.cls_chain_short(job))
            continue
        cand, bad2, v2, res2 = final
        if bad2:
            _, t, ci = sorted(bad2, key=lambda x: (x[1], x[2]))[0]
            p = [x for x in RR.read_lines(res2["diff"]) if x["t"] == t and x["ci"] == ci][0]
            tables = "[%s] -> [%s]" % (" | ".join(CR.rule_short(r) for r in cand["chain"][t - 1]),
                                       " | ".join(CR.rule_short(r) for r in cand["chain"][t]))
            if p["kind"] == "case":
                cl = CR.cli_short(cand["clis"][ci])
                what = ("after reload %s (reload %d of the chain, earlier client: %s) a new client [%s] is told %s by the reloaded "
                        "daemon and %s by a daemon freshly started on the new file"
                        % (tables, t, cand["pre"], cl, CR.obs_short(p["a"]), CR.obs_short(p["b"])))
                sig = "reload: rules %s: probe [%s]" % (tables, cl)
            else:
                what = ("after reload %s the reloaded daemon and a fresh daemon differ in %s: %s vs %s"
                        % (tables, p["kind"], json.dumps(p["a"])[:300], json.dumps(p["b"])[:300]))
                sig = "reload: rules %s: %s" % (tables, p["kind"])
            conj = "C17_fresh_equiv"
        else:
            t, ci, c, w = v2[0]
            tables = "[%s] -> [%s]" % (" | ".join(CR.rule_short(r) for r in cand["chain"][t - 1]),
                                       " | ".join(CR.rule_short(r) for r in cand["chain"][t]))
            cl = CR.cli_short(cand["clis"][ci])
            what = "after reload %s the reloaded daemon's verdict for [%s] contradicts the NEW rule table (%s)" % (tables, cl, "+".join(c))
            sig = "reload: rules %s: %s [%s]" % (tables, "+".join(c), cl)
            conj = "+".join(c)
        reported += 1
        ctx.violation(what, conj, sig, {"kind": "reload-cls", "job": cand})
    return nd


# ---- the check ----------------------------------------------------------------------------------------------------
def run(ctx):
    plan = PLAN[ctx.tier]
    ctx.cov["rule"] = (
        "services: histories printed by TLC from MCReload (initial file, optional earlier client, 1-2 reloads at any point of "
        "its activity, then '? config' and a probe client with full data, password, hurry-up and an OK from every service "
        "queried), each run on the real daemon (file rewritten + SIGUSR1 + hand-shake) and, probe part only, on a daemon "
        "freshly started on the last file; class rules: chains old -> new1 -> new2 of iauth_class sections printed by TLC from "
        "MCReloadClassGen (one stated edit per step), probed after each reload by clients that hit every rule plus random ones, "
        "against fresh daemons on new1 / new2.  TLC judges: ReloadDiff (reloaded = fresh, per step as a multiset), ReloadTrace "
        "(contract with the RL event + implementation-shaped spec), ClassTrace (C11 contract with the table in force).  "
        "distinct_nontrivial = distinct (file before, file after) pairs with file before # file after that were reloaded on "
        "the real daemon and probed (service sections + rule sections)")
    ctx.assumptions += [
        "the property is evaluated for clients ARRIVING AFTER the reload; steps about a client that was live when the file "
        "changed are run (a crash there is reported) but their content is not judged",
        "within one step the order of the X lines is not compared (multiset): service slots are reused across reloads",
        "'-name type' lines of '? config' (records kept for clients still awaited) are not compared; the configured set is",
        "service and rule names differ by more than letter case; entry values are strings (no nested object in iauth_xquery)",
        "the logs section (core.* -> file) is the same in every file; the iauth timeout setting is not part of this property",
        "hand-shake: the reload is complete when the log shows a new 'Re-reading config file' line and a following barrier "
        "request has been answered (single-threaded event loop)",
    ]

    # 1. model checking (exhaustive) + generation, TLC runs side by side
    # (scratch directory and build are created lazily by the context: do it before any thread starts)
    _ = (ctx.scratch, ctx.build)

    def do_svc(item):
        name, kw, mod = item
        r, beh = RR.model_check_svc(ctx, name, workers=plan["svc_workers"], want_behaviours=True, emit_mod=mod, **kw)
        return name, kw, r, beh

    def do_cls(item):
        cfg, rl = item
        return cfg, RR.model_check_cls(ctx, cfg, workers=4, max_rl=rl)

    def do_mut(item):
        kind, bug = item
        if kind == "svc":
            r, _ = RR.model_check_svc(ctx, "mut_" + bug, workers=2, bug=bug, expect_ok=False, names="Names2", words="Words3",
                                      max_rl=1, pre=True, invariants=["ProbeEq", "ProbeLive", "P17_config", "P06_queries"])
        else:
            r = RR.model_check_cls(ctx, "MCReloadClass_q.cfg", workers=2, bug=bug, expect_ok=False)
        return kind, bug, r

    with ThreadPoolExecutor(3) as ex:
        f_svc = [ex.submit(do_svc, it) for it in plan["svc_models"]]
        f_cls = [ex.submit(do_cls, it) for it in plan["cls_models"]]
        f_gen = ex.submit(RR.sample_cls, ctx, plan["cls_chains"], plan["cls_random"], plan["cls_parts"])
        f_mut = [ex.submit(do_mut, it) for it in MODEL_MUTANTS]
        svc_res = [f.result() for f in f_svc]
        cls_res = [f.result() for f in f_cls]
        gen_rs, chains = f_gen.result()
        mut_res = [f.result() for f in f_mut]
    histories = []
    for name, kw, r, beh in svc_res:
        ctx.model_checked(r)
        ctx.note("MCReload/%s (%s x %s, %d reload(s)%s%s): %d distinct states, %d transitions, depth %d, %d histories printed (%.0fs)"
                 % (name, kw["names"], kw["words"], kw["max_rl"], ", earlier client" if kw.get("pre") else "",
                    ", free probe" if kw.get("free") else "", r.distinct, r.generated, r.depth, len(beh), r.wall_s))
        histories.extend(beh)
    for cfg, r in cls_res:
        ctx.model_checked(r)
        ctx.note("MCReloadClass/%s: %d distinct states, %d transitions (%.0fs)" % (cfg, r.distinct, r.generated, r.wall_s))
    ctx.cov["exhaustive"] = True
    for kind, bug, r in mut_res:
        if r.ok:
            raise MachineryError("model mutant %s/%s is not detected by the invariants: the model check is vacuous" % (kind, bug))
    ctx.cov["model_mutants_detected"] = ["%s/%s: %s" % (k, b, r.violated) for k, b, r in mut_res]
    ctx.note("model mutants (Bug switches): " + "; ".join(ctx.cov["model_mutants_detected"]))
    ctx.note("MCReloadClassGen: %d chains sampled and checked (%.0fs)" % (len(chains), max(x.wall_s for x in gen_rs)))

    # 2. replay on the real daemon
    jobs = [RR.svc_job_of_history(h) for h in histories]
    ctx.rng.shuffle(jobs)
    for n, j in enumerate(jobs):
        j["omit_empty"] = (n % 2 == 1)        # every other history: an empty section is left out of the file altogether
        j["xr_rules"] = (n % 3 == 0)          # every third history: iauth_class with one xreply_ok rule per service name
    jobs += make_sanity_jobs(jobs)
    res_s = RR.replay_svc(ctx, jobs, nproc=plan["nproc"])
    pre_modes = ["idle", "done", "pending"]
    cjobs = [{"svcs": c["svcs"], "chain": c["chain"], "clis": c["clis"], "kinds": c["kinds"], "nm": c["nm"], "want": c["want"],
              "pre": pre_modes[n % 3], "omit_empty": (n % 2 == 1)} for n, c in enumerate(chains)]
    res_c = RR.replay_cls(ctx, cjobs, nproc=plan["nproc"])

    wjobs = wide_jobs(ctx.rng, plan.get("wide", 4))
    res_w = RR.replay_svc(ctx, wjobs, nproc=min(4, len(wjobs)), tag="rw")
    tjobs = typo_jobs()
    res_t = RR.replay_svc(ctx, tjobs, nproc=6, tag="rt")

    # 3. TLC judges
    wbad, wviol, wdrift = RR.validate_svc(ctx, res_w, nthreads=4)
    nd_w = report_svc(ctx, wjobs, wbad, wviol, wdrift)
    tbad, tviol, tdrift = RR.validate_svc(ctx, res_t, nthreads=6)
    nd_w += report_svc(ctx, tjobs, tbad, tviol, tdrift)
    ctx.note("full tables: %d histories around a 32-entry service section (%d reloads, %d steps), %d pairs differ; entries edited "
             "twice in a row: %d histories (%d reloads, %d steps), %d pairs differ"
             % (len(wjobs), sum(x["reloads"] for x in res_w), sum(x["steps"] for x in res_w), len(wbad),
                len(tjobs), sum(x["reloads"] for x in res_t), sum(x["steps"] for x in res_t), len(tbad)))
    bad, viol, drift = RR.validate_svc(ctx, res_s, nthreads=plan["nproc"])
    cbad, cviol, cdrift, nna = RR.validate_cls(ctx, res_c, nthreads=plan["nproc"])
    nd = report_svc(ctx, jobs, bad, viol, drift)
    nd += report_cls(ctx, cjobs, cbad, cviol, cdrift)

    # 4. numbers
    st = {"svc_jobs": len(jobs), "svc_steps": sum(x["steps"] for x in res_s), "svc_reloads": sum(x["reloads"] for x in res_s),
          "svc_pairs_compared": sum(len(x["dindex"]) for x in res_s), "svc_pairs_differ": len(bad),
          "svc_trace_records": sum(len(x["tindex"]) for x in res_s),
          "cls_jobs": len(cjobs), "cls_steps": sum(x["steps"] for x in res_c), "cls_reloads": sum(x["reloads"] for x in res_c),
          "cls_pairs_compared": sum(len(x["dindex"]) for x in res_c), "cls_pairs_differ": len(cbad),
          "cls_cases_validated": sum(len(x["tindex"]) for x in res_c), "cls_not_accepted": nna,
          "crashed_daemons": sum(x["crashed"] for x in res_s) + sum(x["crashed"] for x in res_c),
          "drift_lines": nd}
    hs = sum(x["handshake_s"] for x in res_s)
    st["mean_handshake_ms"] = round(1000.0 * hs / max(1, st["svc_reloads"]), 2)
    kinds, pres, distinct = Counter(), Counter(), set()
    for j in jobs:
        pres[svc_pre_variant(j)] += 1
        for a, b in zip(j["files"], j["files"][1:]):
            for k in svc_edit_kinds(a, b):
                kinds[k] += 1
            if a != b:
                distinct.add(json.dumps([a, b], sort_keys=True))
        if j.get("sanity"):
            kinds["failed-reload(sanity)"] += 1
    ckinds, cpre = Counter(), Counter()
    hit_changed = 0
    for j in cjobs:
        cpre[j["pre"]] += 1
        for k in j["kinds"]:
            ckinds[k.split(":")[0]] += 1
        for t in (1, 2):
            if j["chain"][t - 1] != j["chain"][t]:
                distinct.add(json.dumps([j["chain"][t - 1], j["chain"][t]], sort_keys=True))
                # clients whose predicted verdict differs between the table before and after: the reload is observable
                for w0, w1 in zip(j["want"][t - 1], j["want"][t]):
                    if (w0["cls"], w0["u"]) != (w1["cls"], w1["u"]):
                        hit_changed += 1
    st["svc_edit_kinds"] = dict(kinds)
    st["svc_earlier_client"] = dict(pres)
    st["cls_edit_kinds"] = dict(ckinds)
    st["cls_earlier_client"] = dict(cpre)
    st["cls_probes_whose_verdict_changes_with_the_reload"] = hit_changed
    # what the probes made the daemon do (from the recorded traces)
    obs = Counter()
    for x in res_s:
        for (ji, which, si), rec in zip(x["tindex"], RR.read_lines(x["trace"])):
            if rec["e"] != "S":
                continue
            for m in rec["o"]:
                if m["k"] in ("X", "D", "R"):
                    obs[("reloaded_" if which == "L" else "fresh_") + m["k"]] += 1
                elif m["k"] == "A" and m.get("mod") == "xquery":
                    obs["config_lines"] += 1
    st["observed"] = dict(obs)
    ctx.cov["observed"] = st
    ctx.cov["evaluations"] = st["svc_steps"] + st["cls_steps"]
    ctx.cov["traces_validated_against_impl"] = 2 * len(jobs) + st["cls_cases_validated"]
    ctx.cov["distinct_nontrivial"] = len(distinct)
    ctx.cov["reloads_on_real_daemon"] = st["svc_reloads"] + st["cls_reloads"]
    ctx.cov["differential_observations_compared"] = st["svc_pairs_compared"] + st["cls_pairs_compared"]
    for j in jobs[:2]:
        chain, seq = RR.svc_sig(j)
        ctx.sample({"files": chain, "history": seq})
    for j in cjobs[:2]:
        ctx.sample({"rules": RR.cls_chain_short(j), "edits": j["kinds"], "earlier_client": j["pre"], "probes": len(j["clis"])})
    ub = sorted({u for x in res_s + res_c for u in x["ub"]})
    if ub:
        ctx.note("UBSan (recorded, not an alarm): " + "; ".join(ub[:5]))
    for x in res_c:
        for s in x["san"][:1]:
            ctx.note("class-rule job %s: reloaded daemon exit status %s / sanitizer: %s" % (s["job"], s["rc"], s["san"][:300]))
    ctx.note("services: %d histories (%d reloads, mean hand-shake %.2f ms) + fresh runs, %d input lines, %d observations compared by TLC, "
             "%d differ; edits %s; earlier client %s" % (len(jobs), st["svc_reloads"], st["mean_handshake_ms"], st["svc_steps"],
                                                        st["svc_pairs_compared"], len(bad), dict(kinds), dict(pres)))
    ctx.note("class rules: %d chains (%d reloads) + fresh runs, %d input lines, %d observations compared, %d differ; %d cases validated "
             "against the table in force; edits %s; %d probes change verdict with the reload"
             % (len(cjobs), st["cls_reloads"], st["cls_steps"], st["cls_pairs_compared"], len(cbad), st["cls_cases_validated"],
                dict(ckinds), hit_changed))

    # 5. anti-vacuity (only meaningful when nothing was reported: a defective daemon may make a run look thin)
    if ctx.violations:
        return
    for k in ("added", "removed", "retyped", "known->unknown", "unknown->known", "same"):
        if not kinds[k]:
            raise MachineryError("vacuous run: no service reload of kind '%s' among %d histories" % (k, len(jobs)))
    for k in ("idle", "pending", "completed"):
        if not pres[k]:
            raise MachineryError("vacuous run: no history with earlier client '%s'" % k)
    for k in ("add", "remove", "class", "crit", "rename", "trust"):
        if not ckinds[k]:
            raise MachineryError("vacuous run: no rule-table edit of kind '%s' among %d chains" % (k, len(cjobs)))
    for k in ("reloaded_X", "reloaded_D", "reloaded_R", "fresh_X", "config_lines"):
        if not obs[k]:
            raise MachineryError("vacuous run: no %s observed" % k)
    if not hit_changed:
        raise MachineryError("vacuous run: no class-rule probe whose verdict depends on the reload")
    if st["cls_not_accepted"] * 5 > max(1, st["cls_cases_validated"]):
        raise MachineryError("more than 20%% of the class-rule probes were not accepted (%d of %d)"
                             % (st["cls_not_accepted"], st["cls_cases_validated"]))


def replay(ctx, body):
    rp = body["replay"]
    if rp["kind"] == "reload-svc":
        job = rp["job"]
        bad, viol, drift, res = RR.run_svc_single(ctx, job)
        report_svc(ctx, [job], bad, [(0, w, s, c) for (_, w, s, c) in viol], [])
        ctx.cov["evaluations"] = res["steps"]
        ctx.cov["traces_validated_against_impl"] = 2
        ctx.cov["samples"] = [" / ".join(RR.svc_sig(job))]
    else:
        job = rp["job"]
        bad, viol, drift, res = RR.run_cls_single(ctx, job)
        report_cls(ctx, [job], bad, viol, [])
        ctx.cov["evaluations"] = res["steps"]
        ctx.cov["traces_validated_against_impl"] = len(res["tindex"])
        ctx.cov["samples"] = [RR.cls_chain_short(job)]
    ctx.cov["distinct_nontrivial"] = 1
    ctx.cov["rule"] = "replay of one recorded reload job"
