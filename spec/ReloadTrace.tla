----------------------------- MODULE ReloadTrace -----------------------------
(***************************************************************************)
(* Property C17: validation of traces recorded from the REAL daemon across *)
(* SIGUSR1 reloads (vlib/reloadrun.py).  The ndjson file named by TRACE:   *)
(*   {"e":"Reset","cfg":{"svcs":[{name,type}..],"timeout":b},"names":[..]}*)
(*        a fresh daemon process started on that iauth_xquery section; the *)
(*        FIRST line's "names" lists every service name of the file in     *)
(*        conf_object_cmp order (constant NameOrder)                       *)
(*   {"e":"S","ev":{..},"o":[..],"n":k}   one input line and what it       *)
(*        printed; ev.e = "RL" (ev.svcs = the new section) stands for:     *)
(*        configuration file rewritten, SIGUSR1, hand-shake on the log     *)
(*        line "Re-reading config file", barrier;  ev.e = "RLF": the same  *)
(*        with a syntactically invalid file (the reload must fail)         *)
(*   {"e":"Crash",..} / {"e":"Eof","exit":..,"san":..}                     *)
(* Every line is consumed by one step, which                               *)
(*  (1) feeds the event and the OBSERVED output to the contract monitor    *)
(*      IAuthContract!CStep (its "RL" event installs the new section:      *)
(*      P17_config on "? config", P06_queries against the new table, ...); *)
(*      violated conjuncts are printed as "@@V".  Steps about a client     *)
(*      that was announced before a reload and still live at it are NOT    *)
(*      judged (C17 speaks about clients arriving afterwards);             *)
(*  (2) takes the same event with the implementation-shaped spec (IAuth +  *)
(*      Reload!MergeSvc, the walk of config.c) and compares the predicted  *)
(*      output - including the order of the X lines, i.e. the slot layout -*)
(*      with the observed one: a difference is printed as "@@D" (drift).   *)
(* The walk is deterministic: the trace was consumed iff TLC reaches depth *)
(* Len(TraceLog) + 1.                                                      *)
(***************************************************************************)
EXTENDS Reload, Json, IOUtils

VARIABLES l, cst, bad, drifted, tree, carry

A == INSTANCE IAuthContract

TraceLog == ndJsonDeserialize(IOEnv.TRACE)
TraceNames == TraceLog[1].names
TraceServices == << >>
TraceBug == {}

tvars == <<serial, req, slots, ev, out, l, cst, bad, drifted, tree, carry>>

CfgOf(c) == [svcs |-> c.svcs, required |-> {"host", "ident", "nick", "user"}, timeout |-> c.timeout]

TInit == /\ serial = 0 /\ req = <<>> /\ slots = <<>> /\ ev = [e |-> "init"] /\ out = <<>>
         /\ l = 1
         /\ cst = A!CInit(CfgOf([svcs |-> <<>>, timeout |-> TRUE]))
         /\ bad = {} /\ drifted = FALSE
         /\ tree = EmptyTree
         /\ carry = {}

Erase(m) == IF "atext" \in DOMAIN m THEN
                (IF "cls" \in DOMAIN m THEN [m EXCEPT !.atext = "*", !.cls = "*"] ELSE [m EXCEPT !.atext = "*"])
            ELSE m
\* B models iauth_core + iauth_xquery: what iauth_class adds to the output (its own lines of the configuration report, U
\* lines) is left out of the comparison with B, and the class field is erased
OfB(m) == ~(m.k = "A" /\ m.mod # "xquery") /\ m.k # "U"
ErasedOut(o) == LET p == SelectSeq(o, OfB) IN [k \in 1..Len(p) |-> Erase(p[k])]

TReset == /\ TraceLog[l].e = "Reset"
          /\ LET st == FreshSvc(FileOf(TraceLog[l].cfg.svcs)) IN
               /\ tree' = st.tree
               /\ slots' = st.sl
          /\ serial' = 0 /\ req' = <<>> /\ ev' = [e |-> "init"] /\ out' = <<>>
          /\ cst' = A!CInit(CfgOf(TraceLog[l].cfg))
          /\ bad' = {} /\ drifted' = FALSE /\ carry' = {}
          /\ l' = l + 1

\* the client a step is about (-1: none)
TargetOf(e) == IF "id" \in DOMAIN e THEN e.id ELSE IF e.e = "X" /\ "oid" \in DOMAIN e THEN e.oid ELSE -1

Report(v, d, want, wantn) ==
    /\ bad' = bad \cup v
    /\ IF v \subseteq bad THEN TRUE ELSE PrintT("@@V" \o ToJson([l |-> l, v |-> v \ bad]))
    /\ drifted' = (drifted \/ d)
    /\ IF drifted \/ ~d THEN TRUE ELSE PrintT("@@D" \o ToJson([l |-> l, want |-> want, wantn |-> wantn]))

TStep == /\ TraceLog[l].e = "S"
         /\ TraceLog[l].ev.e \notin {"RL", "RLF"}
         /\ LET rec == TraceLog[l]
                r == A!CStep(cst, rec.ev, rec.o, rec.n)
                tgt == TargetOf(rec.ev)
                judged == tgt \notin carry
                v == IF ~judged THEN {}
                     ELSE IF carry \cap (DOMAIN req' \cup DOMAIN r.c.cl) # {} THEN r.v \ {"P10_count"} ELSE r.v
            IN /\ Step(rec.ev)
               /\ cst' = r.c
               /\ carry' = IF rec.ev.e = "C" THEN carry \ {rec.ev.id} ELSE carry
               /\ Report(v, (out' # ErasedOut(rec.o)) \/ (rec.n # -1 /\ rec.n # Cardinality(DOMAIN req')),
                         out', Cardinality(DOMAIN req'))
         /\ UNCHANGED tree
         /\ l' = l + 1

\* a successful reload: the walk of config.c (Reload!MergeSvc) on B, the "RL" event on the contract
TReload == /\ TraceLog[l].e = "S"
           /\ TraceLog[l].ev.e = "RL"
           /\ LET rec == TraceLog[l]
                  st == ReloadSvc(tree, slots, FileOf(rec.ev.svcs))
                  r == A!CStep(cst, rec.ev, rec.o, rec.n)
              IN /\ tree' = st.tree
                 /\ slots' = st.sl
                 /\ ev' = rec.ev /\ out' = <<>>
                 /\ UNCHANGED <<serial, req>>
                 /\ cst' = r.c
                 /\ carry' = carry \cup DOMAIN req \cup DOMAIN cst.cl
                 /\ Report(IF DOMAIN req \cup DOMAIN cst.cl = {} THEN r.v ELSE r.v \ {"P10_count"},
                           (rec.o # <<>>) \/ (rec.n # -1 /\ rec.n # Cardinality(DOMAIN req)), <<>>, Cardinality(DOMAIN req))
           /\ l' = l + 1

\* a reload that must fail (invalid file): nothing changes, nothing is printed
TReloadFail == /\ TraceLog[l].e = "S"
               /\ TraceLog[l].ev.e = "RLF"
               /\ LET rec == TraceLog[l] IN
                    Report({}, (rec.o # <<>>) \/ (rec.n # -1 /\ rec.n # Cardinality(DOMAIN req)), <<>>, Cardinality(DOMAIN req))
               /\ UNCHANGED <<serial, req, slots, ev, out, cst, tree, carry>>
               /\ l' = l + 1

\* the daemon died (or hung) inside a step - also inside a reload
TCrash == /\ TraceLog[l].e = "Crash"
          /\ PrintT("@@V" \o ToJson([l |-> l, v |-> {"crash"}]))
          /\ UNCHANGED <<serial, req, slots, ev, out, cst, drifted, tree, carry>>
          /\ bad' = bad \cup {"crash"}
          /\ l' = l + 1

TEof == /\ TraceLog[l].e = "Eof"
        /\ LET rec == TraceLog[l]
               v == (IF rec.exit # 0 THEN {"exit"} ELSE {}) \cup (IF rec.san # "" THEN {"sanitizer"} ELSE {})
           IN /\ bad' = bad \cup v
              /\ IF v \subseteq bad THEN TRUE ELSE PrintT("@@V" \o ToJson([l |-> l, v |-> v \ bad]))
        /\ UNCHANGED <<serial, req, slots, ev, out, cst, drifted, tree, carry>>
        /\ l' = l + 1

TNext == l <= Len(TraceLog) /\ (TReset \/ TStep \/ TReload \/ TReloadFail \/ TCrash \/ TEof)
=============================================================================
