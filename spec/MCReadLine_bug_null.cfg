CONSTANTS
  ARGV = 2
  Bug <- BugNullStore
  Alphabet <- Sigma4
  MaxLen = 5
  MaxChunk = 5
  Streams <- AllStreams
INIT RInit
NEXT RNext
INVARIANT DeliveredIsContract
INVARIANT BufferIsTail
INVARIANT ArgvInBounds
INVARIANT EofClean
