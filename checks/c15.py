"""C15 - reload is deterministic: last good file plus defaults (src/config.c merge semantics).

Pipeline (see docs/BUILDER_GUIDE.md):
  1. TLC model-checks spec/Conf.tla (B = transcription of conf_replace_value / conf_register_*,
     A = the contract) exhaustively over the universes of spec/MCConf.tla and, in the same run,
     prints one complete behaviour  Register* ; Load ; Register* ; Load ; Load  per explored transition.
  2. Every behaviour is rendered (configuration files in a plain layout, a harness script) and run
     through harness/h_conf on the rebuilt sources, one fresh process image per behaviour.
  3. TLC validates the recorded ndjson traces against the contract (spec/ConfTrace.tla): the oracle.
     A difference to B's prediction is only DRIFT.
  4. Seeded random long histories over a larger universe (more names incl. case variants, typed
     strings of four subtypes, depth 2, failing loads, registrations at any point) go the same way.
Python only moves bytes: it renders inputs, runs processes and maps TLC's verdicts back to histories.
"""
import json
import os
import re
import subprocess
import time
from concurrent.futures import ThreadPoolExecutor

from vlib import core

LEVEL = "model_checking"
TITLE = "reload is deterministic: last good file plus defaults (conf_read / conf_replace_value)"

QUICK_UNIVERSES = ["q1", "q2", "q3", "q4"]
THOROUGH_UNIVERSES = ["q1", "q2", "q3", "q4", "t1", "t2", "t3"]
KIND_WORD = {"s": "string", "i": "inaddr", "l": "list", "o": "object"}
NPAR = 16
CONJUNCTS = ["C15_Completes", "C15_Values", "C15_Leftovers", "C15_FileNodes", "C15_Idempotent",
             "C15_SettingHook", "C15_ObjectHook", "C15_Register", "C15_LastGood"]


# ---------------------------------------------------------------------------------------------
# rendering (purely syntactic)
def _q(tok):
    """token "=text" -> quoted configuration string"""
    assert tok.startswith("="), tok
    return '"' + tok[1:].replace("\\", "\\\\").replace('"', '\\"') + '"'


def render_file(entries, spell=None):
    """entries: list of {"p": [...], "k": kind, "v": [...]} closed under parents.  One entry per line,
    quoted strings, `name ( "a", "b" )` lists, `name "host" "svc"` pairs, `name {` ... `}`."""
    spell = spell or {}
    kids = {}
    for e in entries:
        kids.setdefault(tuple(e["p"][:-1]), []).append(e)
    out = []

    def emit(path, ind):
        for e in sorted(kids.get(path, []), key=lambda e: (e["p"][-1], e["k"])):
            name = spell.get(tuple(e["p"]) + (e["k"],), e["p"][-1])
            pad = "    " * ind
            if e["k"] == "s":
                out.append("%s%s %s" % (pad, name, _q(e["v"][0])))
            elif e["k"] == "i":
                out.append("%s%s %s %s" % (pad, name, _q(e["v"][0]), _q(e["v"][1])))
            elif e["k"] == "l":
                out.append("%s%s ( %s )" % (pad, name, ", ".join(_q(x) for x in e["v"])) if e["v"]
                           else "%s%s ( )" % (pad, name))
            else:
                out.append("%s%s {" % (pad, name))
                emit(tuple(e["p"]), ind + 1)
                out.append("%s}" % pad)
    emit((), 0)
    return "\n".join(out) + "\n"


def canon_entries(entries):
    return sorted(({"p": list(e["p"]), "k": e["k"], "v": list(e["v"])} for e in entries),
                  key=lambda e: (e["p"], e["k"]))


class Renderer:
    """Turns events into harness script lines; configuration files are written once per content."""

    def __init__(self, scratch):
        self.dir = os.path.join(scratch, "files")
        os.makedirs(self.dir, exist_ok=True)
        self.cache = {}
        bad = os.path.join(self.dir, "bad-unterminated.conf")
        with open(bad, "w") as f:
            f.write('a "x"\nb {\n    a "y"\n')
        self.bad = [os.path.join(self.dir, "does-not-exist.conf"), bad]

    def file_path(self, text):
        p = self.cache.get(text)
        if p is None:
            p = os.path.join(self.dir, "f%d.conf" % len(self.cache))
            with open(p, "w") as f:
                f.write(text)
            self.cache[text] = p
        return p

    def lines(self, events):
        out = []
        for ev in events:
            op = ev["op"]
            if op == "reg":
                path = "/".join(ev.get("spell") or ev["p"])
                k = ev["k"]
                if k == "s":
                    out.append("register string %s %s %s" % (path, ev["s"], ev["d"][0]))
                elif k == "i":
                    out.append("register inaddr %s %s %s" % (path, ev["d"][0], ev["d"][1]))
                elif k == "l":
                    out.append("register %s %s %d%s" % (ev.get("via", "list"), path, len(ev["d"]),
                                                       "".join(" " + x for x in ev["d"])))
                else:
                    out.append("register object %s" % path)
            elif op == "load":
                ent = canon_entries(ev["f"])
                spell = {tuple(k): v for k, v in ev.get("spell", [])}
                p = self.file_path(render_file(ent, spell))
                out.append('load %s "f":%s' % (p, json.dumps(ent, separators=(",", ":"))))
            elif op == "bad":
                out.append('load %s "bad":1,"f":[]' % self.bad[ev.get("which", 0) % len(self.bad)])
            elif op == "dump":
                out.append("dump")
            else:
                raise core.MachineryError("unknown event %r" % (ev,))
        return out


def names_of(behaviours):
    names = set()
    for evs in behaviours:
        for ev in evs:
            if ev["op"] == "reg":
                names.update(ev["p"])
            elif ev["op"] == "load":
                for e in ev["f"]:
                    names.update(e["p"])
    return sorted(names)


def short(events):
    """canonical one-line text of a history (used in signatures and samples)"""
    parts = []
    for ev in events:
        if ev["op"] == "reg":
            extra = ev["s"] + " " if ev["k"] == "s" else ""
            parts.append("reg %s:%s %s%s" % ("/".join(ev["p"]), ev["k"], extra, ",".join(ev["d"]) or "-"))
        elif ev["op"] == "load":
            parts.append("load{%s}" % " ".join("%s:%s%s" % ("/".join(e["p"]), e["k"],
                                                                ("=" + ",".join(x[1:] for x in e["v"])) if e["k"] != "o" else "")
                                               for e in canon_entries(ev["f"])))
        else:
            parts.append(ev["op"])
    return "; ".join(parts)


# ---------------------------------------------------------------------------------------------
# running the real code
def _env():
    e = dict(os.environ)
    e["ASAN_OPTIONS"] = "detect_leaks=0"
    e["UBSAN_OPTIONS"] = "print_stacktrace=0"
    return e


def run_chunk(harness, header, scripts, trace_path, err_path, timeout):
    """scripts: list of (id, lines).  Writes header + the harness's multi-mode output to trace_path."""
    with open(trace_path, "w") as fo:
        fo.write(header + "\n")
    inp = []
    for bid, lines in scripts:
        inp.append('reset "id":%d' % bid)
        inp.extend(lines)
    data = ("\n".join(inp) + "\n").encode()
    with open(trace_path, "ab") as fo, open(err_path, "wb") as fe:
        try:
            p = subprocess.run([harness, "-m"], input=data, stdout=fo, stderr=fe, env=_env(), timeout=timeout)
        except subprocess.TimeoutExpired:
            raise core.MachineryError("h_conf timed out on a chunk of %d histories" % len(scripts))
    if p.returncode != 0:
        with open(err_path, errors="replace") as f:
            raise core.MachineryError("h_conf -m exited %d: %s" % (p.returncode, f.read()[-2000:]))


def run_single(harness, header, lines, trace_path, timeout=60):
    """One history on a fresh process (exec); returns the sanitizer / stderr text."""
    data = ("\n".join(lines) + "\n").encode()
    try:
        p = subprocess.run([harness], input=data, stdout=subprocess.PIPE, stderr=subprocess.PIPE, env=_env(),
                           timeout=timeout)
    except subprocess.TimeoutExpired:
        raise core.MachineryError("h_conf timed out on a single history")
    if p.returncode == 3:
        raise core.MachineryError("h_conf rejected its script: " + p.stderr.decode(errors="replace")[-500:])
    with open(trace_path, "wb") as fo:
        fo.write((header + "\n").encode())
        fo.write(b'{"e":"Reset","id":0}\n')
        fo.write(p.stdout)
        fo.write(('{"e":"exit","st":%d,"sig":%d}\n' % (p.returncode if p.returncode >= 0 else -1,
                                                      -p.returncode if p.returncode < 0 else 0)).encode())
    return p.stderr.decode(errors="replace")


# ---------------------------------------------------------------------------------------------
# TLC as the oracle
_RE_REPORT = re.compile(r'^<<"@@([VD])", (\d+), \{(.*)\}>>$')
_RE_END = re.compile(r'^<<"@@END", (\d+)>>$')


def validate(ctx, trace_path, strict=False, timeout=900):
    """Run ConfTrace over one trace file.  Returns (failures, drifts, result): lists of (line, [names])."""
    r = ctx.tlc("ConfTrace", "ConfTrace.cfg" if strict else "ConfTrace_all.cfg", workers=1, timeout=timeout,
                env={"TRACE": trace_path}, heap="3g", capture_printed=False)
    fails, drifts, end = [], [], None
    for line in r.output.splitlines():
        m = _RE_REPORT.match(line)
        if m:
            names = [x.strip().strip('"') for x in m.group(3).split(",") if x.strip()]
            (fails if m.group(1) == "V" else drifts).append((int(m.group(2)), names))
            continue
        m = _RE_END.match(line)
        if m:
            end = int(m.group(1))
    if not strict:
        if r.violated:
            raise core.MachineryError("ConfTrace failed unexpectedly (%s): %s" % (r.violated, r.violation_text[:1500]))
        with open(trace_path, "rb") as f:
            nlines = sum(1 for _ in f)
        if end != nlines + 1:
            raise core.MachineryError("ConfTrace did not consume %s completely (end=%r, lines=%d)\n%s"
                                      % (trace_path, end, nlines, r.output[-1500:]))
    return fails, drifts, r


def history_index(trace_path):
    """line number (1-based) of every Reset line -> id"""
    starts = []
    with open(trace_path, "rb") as f:
        for no, line in enumerate(f, 1):
            if line.startswith(b'{"e":"Reset"'):
                starts.append((no, json.loads(line).get("id")))
    return starts


def locate(starts, lineno):
    lo, hi = 0, len(starts) - 1
    while lo < hi:
        mid = (lo + hi + 1) // 2
        if starts[mid][0] <= lineno:
            lo = mid
        else:
            hi = mid - 1
    return starts[lo]


# ---------------------------------------------------------------------------------------------
class Campaign:
    """Replays a list of histories on the real code and has TLC judge the traces."""

    def __init__(self, ctx, label):
        self.ctx = ctx
        self.label = label
        self.harness = ctx.build.harness("h_conf")
        self.render = Renderer(ctx.scratch)
        self.dir = os.path.join(ctx.scratch, "traces-" + label)
        os.makedirs(self.dir, exist_ok=True)
        self.serial = 0

    def header(self, behaviours):
        return json.dumps({"e": "Header", "names": names_of(behaviours)}, separators=(",", ":"))

    def replay_all(self, behaviours, per_file=2500):
        """-> list of (trace_path, ids); histories are numbered by their index in `behaviours`"""
        ctx = self.ctx
        header = self.header(behaviours)
        jobs = []
        for lo in range(0, len(behaviours), per_file):
            ids = list(range(lo, min(lo + per_file, len(behaviours))))
            self.serial += 1
            tp = os.path.join(self.dir, "t%05d.ndjson" % self.serial)
            jobs.append((tp, tp + ".err", [(i, self.render.lines(behaviours[i])) for i in ids]))
        with ThreadPoolExecutor(NPAR) as ex:
            futs = [ex.submit(run_chunk, self.harness, header, sc, tp, ep, 600) for tp, ep, sc in jobs]
            for f in futs:
                f.result()
        return header, [tp for tp, _, _ in jobs]

    def judge(self, trace_paths):
        """-> failures {id: (conjuncts, lineno, path)}, drifts {id: names}, steps"""
        ctx = self.ctx
        fails, drifts = {}, {}
        lines = [0]

        def one(tp):
            f, d, r = validate(ctx, tp)
            starts = history_index(tp)
            return tp, f, d, starts, r.distinct

        with ThreadPoolExecutor(NPAR) as ex:
            for tp, f, d, starts, distinct in ex.map(one, trace_paths):
                lines[0] += distinct
                for lineno, names in f:
                    _, bid = locate(starts, lineno)
                    if bid not in fails:
                        fails[bid] = (names, lineno, tp)
                for lineno, names in d:
                    _, bid = locate(starts, lineno)
                    drifts.setdefault(bid, names)
        return fails, drifts, lines[0]

    # -- confirmation, minimisation, reporting ---------------------------------------------------
    def confirm(self, events):
        """Fresh process, strict validation -> (conjunct or None, stderr text)."""
        self.serial += 1
        tp = os.path.join(self.dir, "single%05d.ndjson" % self.serial)
        err = run_single(self.harness, self.header([events]), self.render.lines(events), tp)
        _, _, r = validate(self.ctx, tp, strict=True)
        if r.violated is None:
            return None, err
        if r.violated not in CONJUNCTS:
            raise core.MachineryError("ConfTrace: unexpected failure %s\n%s" % (r.violated, r.violation_text[:1500]))
        return r.violated, err

    def still_fails(self, variants, conjunct):
        """variants: list of event lists -> index of the first one whose trace fails `conjunct`, else None"""
        if not variants:
            return None
        header, tps = self.replay_all(variants, per_file=100000)
        fails, _, _ = self.judge(tps)
        for i in range(len(variants)):
            if i in fails and conjunct in fails[i][0]:
                return i
        return None

    def minimise(self, events, conjunct, rounds=12):
        def valid(evs):
            regs = set()
            for ev in evs:
                if ev["op"] == "reg":
                    if len(ev["p"]) > 1 and tuple(ev["p"][:-1]) not in regs:
                        return False
                    if ev["k"] == "o":
                        regs.add(tuple(ev["p"]))
            return True

        cur = events
        for _ in range(rounds):
            variants = []
            for i in range(len(cur)):                       # drop one event
                v = cur[:i] + cur[i + 1:]
                if v and valid(v):
                    variants.append(v)
            for i, ev in enumerate(cur):                    # drop one entry (with what is below it) of one file
                if ev["op"] != "load":
                    continue
                for e in ev["f"]:
                    keep = [x for x in ev["f"] if not (x is e or (e["k"] == "o" and x["p"][:len(e["p"])] == e["p"]))]
                    variants.append(cur[:i] + [dict(ev, f=keep)] + cur[i + 1:])
            j = self.still_fails(variants, conjunct)
            if j is None:
                break
            cur = variants[j]
        return cur

    def report(self, fails, behaviours, limit=4):
        """Confirm (fresh process, strict TLC run), minimise and report distinct failures."""
        ctx = self.ctx
        seen = set()
        groups = {}
        for bid, (names, lineno, tp) in sorted(fails.items()):
            groups.setdefault(tuple(sorted(names)), []).append(bid)
        ctx.cov.setdefault("failing_histories", 0)
        ctx.cov["failing_histories"] += len(fails)
        for names, bids in sorted(groups.items()):
            for bid in sorted(bids, key=lambda b: len(behaviours[b]))[:limit]:
                events = behaviours[bid]
                conj, err = self.confirm(events)
                if conj is None:
                    ctx.note("history %d failed %s in the batch run but not on a fresh process: not reported"
                             % (bid, ",".join(names)))
                    continue
                small = self.minimise(events, conj)
                conj2, err2 = self.confirm(small)
                if conj2 != conj:
                    small, err2 = events, err
                sig = "%s | %s" % (conj, short(small))
                if sig in seen:
                    continue
                seen.add(sig)
                san = ""
                m = re.search(r"ERROR: AddressSanitizer: [^\n]*", err2)
                if m:
                    san = m.group(0)
                what = "the contract conjunct %s fails on the trace of the real code%s; history: %s" % (
                    conj, (" (" + san + ")") if san else "", short(small))
                ctx.violation(what, conj, sig, {"events": small, "files": [render_file(canon_entries(e["f"]),
                              {tuple(k): v for k, v in e.get("spell", [])}) for e in small if e["op"] == "load"],
                              "sanitizer": err2[-3000:] if san else "", "found_in": self.label})
                break           # one minimised report per group of conjuncts is enough


# ---------------------------------------------------------------------------------------------
def generate(ctx, uni, sample=None):
    """Exhaustive TLC run of B against A over one universe, emitting one behaviour per transition."""
    out = os.path.join(ctx.scratch, "emit-%s.out" % uni)
    r = ctx.tlc("MCConf", "MCConf_%s_emit.cfg" % uni, workers=4, timeout=1200, heap="6g", stdout_path=out,
                capture_printed=False)
    if r.violated:
        raise core.MachineryError("model-only run of Conf.tla (%s) violates %s: the specification is wrong\n%s"
                                  % (uni, r.violated, r.violation_text[:3000]))
    ctx.model_checked(r)
    behaviours = []
    rng = ctx.rng
    with open(out, errors="replace") as f:
        for line in f:
            if line.startswith('"@@E'):
                if sample is not None and rng.random() >= sample:
                    continue
                behaviours.append(json.loads(json.loads(line)[3:]))
    if not behaviours:
        raise core.MachineryError("no behaviours emitted for universe " + uni)
    return r, behaviours


# -- seeded random long histories over a larger universe ------------------------------------------
TYPED_POOL = {"interval": ["=1h", "=60m", "=90", "=1m30s", "=0", "=5", "=0:0:5"],
              "integer": ["=5", "=0x5", "=7", "=0", "=007"],
              "boolean": ["=yes", "=on", "=1", "=no", "=off"],
              "volume": ["=1k", "=1024", "=2k", "=0"]}
STR_POOL = ["=x", "=y", "=", "=two words"]
HOST_POOL = ["=h", "=g", "=::1"]
SVC_POOL = ["=p", "=8080"]
NAMES = ["a", "b", "c"]


def random_history(rng, length):
    """Registrations at any point, loads of random files (often the same again, sometimes failing)."""
    keys = []            # the universe of this history: (path, kind, subtype)
    objs = [()]
    for depth in (1, 2, 3):
        for parent in [o for o in objs if len(o) == depth - 1]:
            for n in NAMES:
                for k in "silo":
                    if rng.random() < (0.45 if depth == 1 else 0.3 if depth == 2 else 0.2):
                        if k == "o" and depth == 3:
                            continue
                        sub = rng.choice(["plain", "plain", "interval", "integer", "boolean", "volume"]) if k == "s" else ""
                        keys.append((parent + (n,), k, sub))
                        if k == "o":
                            objs.append(parent + (n,))
    if not keys:
        keys.append((("a",), "s", "plain"))
    upper = {key[:2]: rng.random() < 0.25 for key in keys}

    def value(key):
        path, k, sub = key
        if k == "s":
            return [rng.choice(TYPED_POOL[sub] if sub != "plain" else STR_POOL)]
        if k == "i":
            return [rng.choice(HOST_POOL), rng.choice(SVC_POOL)]
        if k == "l":
            return [rng.choice(STR_POOL) for _ in range(rng.choice([0, 0, 1, 2, 3]))]
        return []

    def default(key):
        path, k, sub = key
        if k == "s":
            return [rng.choice(["~"] + (TYPED_POOL[sub] if sub != "plain" else STR_POOL))]
        if k == "i":
            return [rng.choice(["~"] + HOST_POOL), rng.choice(["~"] + SVC_POOL)]
        if k == "l":
            return [rng.choice(STR_POOL) for _ in range(rng.choice([0, 1, 2, 4]))]
        return []

    def random_file():
        dens = rng.choice([0.3, 0.6, 0.9])
        chosen = set()
        ent = []
        for key in keys:                                   # parents come before their children
            path, k, sub = key
            if len(path) > 1 and (path[:-1], "o") not in chosen:
                continue
            if rng.random() < dens:
                chosen.add((path, k))
                ent.append({"p": list(path), "k": k, "v": value(key)})
        spell = [[list(path) + [k], path[-1].upper()] for (path, k) in chosen if upper[(path, k)] and rng.random() < 0.5]
        return ent, spell

    events, registered, files = [], set(), []
    for _ in range(length):
        x = rng.random()
        cands = [key for key in keys if key[:2] not in registered
                 and (len(key[0]) == 1 or (key[0][:-1], "o") in registered)]
        if x < 0.35 and cands:
            key = rng.choice(cands)
            registered.add(key[:2])
            ev = {"op": "reg", "p": list(key[0]), "k": key[1], "d": default(key), "s": key[2]}
            if key[1] == "l" and len(ev["d"]) <= 4 and rng.random() < 0.4:
                ev["via"] = "listsv"
            if upper[key[:2]] and rng.random() < 0.3:
                ev["spell"] = list(key[0][:-1]) + [key[0][-1].upper()]
            events.append(ev)
        elif x < 0.42 and files:
            events.append({"op": "bad", "which": rng.randrange(2)})
        elif x < 0.62 and files:
            ent, spell = rng.choice(files[-2:])
            events.append({"op": "load", "f": ent, "spell": spell})
            files.append((ent, spell))
        else:
            ent, spell = random_file()
            files.append((ent, spell))
            events.append({"op": "load", "f": ent, "spell": spell})
    return events


def nontrivial_cases(behaviours):
    """distinct (registrations so far, previous good file, file) triples over all load steps with
    previous file present and at least one registration or entry"""
    seen = set()
    for evs in behaviours:
        regs, prev = [], None
        for ev in evs:
            if ev["op"] == "reg":
                regs.append(("/".join(ev["p"]), ev["k"], ev["s"], tuple(ev["d"])))
            elif ev["op"] == "load":
                f = json.dumps(canon_entries(ev["f"]), separators=(",", ":"))
                if prev is not None and (regs or ev["f"]):
                    seen.add((tuple(sorted(regs)), prev, f))
                prev = f
    return seen


# ---------------------------------------------------------------------------------------------
def run(ctx):
    t0 = time.time()
    thorough = ctx.tier == "thorough"
    universes = THOROUGH_UNIVERSES if thorough else QUICK_UNIVERSES
    ctx.assumptions += [
        "configuration files are rendered in one plain layout (one entry per line, quoted strings); other "
        "layouts are the subject of C14/C16",
        "every parent object is registered before its children (consumers hold the parent pointer); a key is "
        "registered at most once per process; hooks are installed right after registration and on the root",
        "value pools hold no two strings that differ only in case (host/service comparison is case-insensitive) "
        "and only typed values the parsers accept",
        "sanitizers: ASan errors count (trace truncated), leaks are not looked at (detect_leaks=0)",
    ]
    ctx.cov["rule"] = ("distinct (registrations with defaults, previous good file, file) triples over all replayed "
                       "load steps that have a previous good file")
    nontrivial = set()
    ctx.cov["universes"] = {}

    # 1+2+3: exhaustive universes.  TLC runs of different universes go in parallel.
    def gen(uni):
        sample = None
        if thorough and uni in ("t1", "t2", "t3"):
            sample = THOROUGH_SAMPLE.get(uni)
        return uni, generate(ctx, uni, sample)

    with ThreadPoolExecutor(4) as ex:
        gens = list(ex.map(gen, universes))
    ctx.cov["exhaustive"] = True
    ctx.note("model: %d distinct states, %d transitions over %d universes (%.0fs)"
             % (ctx.cov["states"], ctx.cov["transitions"], len(universes), time.time() - t0))

    total_hist = total_steps = 0
    for uni, (r, behaviours) in gens:
        t1 = time.time()
        camp = Campaign(ctx, uni)
        header, tps = camp.replay_all(behaviours)
        t2 = time.time()
        fails, drifts, consumed = camp.judge(tps)
        steps = sum(len(b) for b in behaviours)
        total_hist += len(behaviours)
        total_steps += steps
        nontrivial |= nontrivial_cases(behaviours)
        ctx.cov["universes"][uni] = {"distinct_states": r.distinct, "transitions": r.generated,
                                     "histories_replayed": len(behaviours), "steps": steps,
                                     "failing": len(fails), "drifting": len(drifts),
                                     "replay_s": round(t2 - t1, 1), "validate_s": round(time.time() - t2, 1)}
        ctx.note("%s: %d states / %d transitions; %d histories (%d steps) replayed in %.1fs, validated in %.1fs; "
                 "%d fail, %d drift" % (uni, r.distinct, r.generated, len(behaviours), steps, t2 - t1,
                                        time.time() - t2, len(fails), len(drifts)))
        if len(ctx.cov["samples"]) < 4 and behaviours:
            ctx.sample(short(behaviours[len(behaviours) // 2]))
        for bid, names in list(sorted(drifts.items()))[:3]:
            ctx.drift("%s: B predicts a different %s for: %s" % (uni, "/".join(names), short(behaviours[bid])))
        if fails:
            camp.report(fails, behaviours)

    # 4: random long histories
    n_rand, length = (6000, 30) if thorough else (400, 16)
    rnd = [random_history(ctx.rng, ctx.rng.randrange(length // 2, length + 1)) for _ in range(n_rand)]
    t1 = time.time()
    camp = Campaign(ctx, "random")
    header, tps = camp.replay_all(rnd, per_file=500)
    t2 = time.time()
    fails, drifts, consumed = camp.judge(tps)
    steps = sum(len(b) for b in rnd)
    total_hist += len(rnd)
    total_steps += steps
    nontrivial |= nontrivial_cases(rnd)
    ctx.cov["random"] = {"histories": len(rnd), "steps": steps, "failing": len(fails), "drifting": len(drifts),
                         "replay_s": round(t2 - t1, 1), "validate_s": round(time.time() - t2, 1)}
    ctx.note("random: %d histories (%d steps) replayed in %.1fs, validated in %.1fs; %d fail, %d drift"
             % (len(rnd), steps, t2 - t1, time.time() - t2, len(fails), len(drifts)))
    ctx.sample(short(rnd[0])[:600])
    for bid, names in list(sorted(drifts.items()))[:3]:
        ctx.drift("random: B predicts a different %s for: %s" % ("/".join(names), short(rnd[bid])[:800]))
    if fails:
        camp.report(fails, rnd)

    ctx.cov["traces_validated_against_impl"] = total_hist
    ctx.cov["evaluations"] = total_steps
    ctx.cov["distinct_nontrivial"] = len(nontrivial)


THOROUGH_SAMPLE = {"t1": None, "t2": None, "t3": None}


def replay(ctx, body):
    """Re-run the history of a replay file on a fresh build and let TLC judge it again."""
    events = body["replay"]["events"]
    camp = Campaign(ctx, "replay")
    conj, err = camp.confirm(events)
    ctx.cov["evaluations"] = len(events)
    ctx.cov["traces_validated_against_impl"] = 1
    if conj is None:
        ctx.note("the history no longer violates the contract")
        return
    ctx.violation("replayed: the contract conjunct %s fails; history: %s" % (conj, short(events)), conj,
                  "%s | %s" % (conj, short(events)), {"events": events, "sanitizer": err[-3000:]})
