SPECIFICATION MCSpec
CONSTANTS Keys = {1, 2, 3}
VIEW View
INVARIANTS TypeOK SearchTreeOrder TreeIsAllNodes ListIsInOrder CountOK
PROPERTY Refines
