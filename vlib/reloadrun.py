"""Pipeline of the C17 check (a reload reaches the decision modules).

   TLC (MCReload: services; MCReloadClassGen: class rules) -> histories / chains of configuration files
   -> the REAL daemon: started on `old`, activity, configuration file rewritten + SIGUSR1 (hand-shake on
      the log file) ..., probe clients;  and a FRESH daemon started on the new file with the same probes
   -> ndjson -> TLC: ReloadDiff (reloaded run = fresh run; the VIOLATION oracle of the property),
      ReloadTrace (contract IAuthContract with its RL event + implementation-shaped spec on the reloaded run),
      ClassTrace (C11's contract with the rule table in force, on the reloaded run).

Nothing here judges the property: the module renders configuration files, feeds lines, sends the signal,
parses output lines into message records, renames routing tags by order of appearance, and maps TLC's
findings back to jobs."""
import json
import multiprocessing
from . import core as _core
import os
import re
import shutil
import signal
import time
from concurrent.futures import ThreadPoolExecutor

from . import classrun as CR
from . import daemon as D
from . import tlc as T
from .core import MachineryError

SPEC_DIR = T.SPEC_DIR
LOGFILE = "reload.log"
LOGS = [("core.*", "file:" + LOGFILE)]
MARK = b"Re-reading config file"
BAD_TAIL = "\n)\n"          # a stray token at top level: conf_read() must fail and leave everything as it was

SVC_INVARIANTS = ["ProbeEq", "ProbeLive", "SlotsRefine", "FreshWhenIdle", "SlotsSane", "TreeFollows", "AbstractAgrees",
                  "FreshIsFresh", "P01_once", "P02_gate", "P03_prompt", "P04_stray", "P05_content", "P06_queries",
                  "P07_scope", "P09_wire", "P10_count", "P17_config", "HoldsSane", "SerialsUnique", "RefsCover",
                  "NoReadyLeft"]


class _B:
    pass


def _build_of(args):
    b = _B()
    b.root, b.moddir, b.daemon = args
    return b


# ---- TLC side ---------------------------------------------------------------------------------------------
def svc_cfg_text(names="Names2", words="Words5", max_rl=1, pre=True, free=False, keep_old=False, emit_mod=0,
                 bug="RB_none", max_inst=1, max_pw=1, invariants=None):
    inv = SVC_INVARIANTS if invariants is None else invariants
    tf = lambda x: "TRUE" if x else "FALSE"
    return ("CONSTANTS\n  Services <- NoServices\n  TimeoutOn = TRUE\n  Bug <- NoBug\n  MaxInst = %d\n  MaxPw = %d\n"
            "  EmitMod = %d\n  NameOrder <- %s\n  RBug <- %s\n  TypeWords <- %s\n  MaxRl = %d\n  PreOn = %s\n  Free = %s\n"
            "  KeepOld = %s\nINIT RInit\nNEXT RNext\nVIEW RView\nACTION_CONSTRAINT REmit\n%s\n") % (
        max_inst, max_pw, emit_mod, names, bug, words, max_rl, tf(pre), tf(free), tf(keep_old),
        "\n".join("INVARIANT " + i for i in inv))


def model_check_svc(ctx, name, workers=12, timeout=900, want_behaviours=False, expect_ok=True, **kw):
    """Exhaustive TLC run of MCReload; returns (TLCResult, emitted histories or None)."""
    cfg = os.path.join(ctx.scratch, "mcr_%s.cfg" % name)
    with open(cfg, "w") as f:
        f.write(svc_cfg_text(**kw))
    outp = os.path.join(ctx.scratch, "mcr_%s.out" % name) if want_behaviours else None
    r = ctx.tlc("MCReload", cfg, workers=workers, timeout=timeout, stdout_path=outp, heap="8g", seed=ctx.seed)
    if expect_ok and not r.ok:
        raise MachineryError("model MCReload/%s violates %s on the unchanged specification:\n%s"
                             % (name, r.violated, r.violation_text[:3000]))
    beh = None
    if want_behaviours:
        beh = []
        with open(outp, errors="replace") as f:
            for line in f:
                if line.startswith('"@@E'):
                    beh.append(json.loads(json.loads(line)[3:]))
        os.unlink(outp)
    return r, beh


def _cfg_with(ctx, base, name, subst):
    with open(os.path.join(SPEC_DIR, base)) as f:
        text = f.read()
    for pat, rep in subst:
        text, n = re.subn(pat, rep, text, flags=re.M)
        if n != 1:
            raise MachineryError("cfg template %s: pattern %r matched %d times" % (base, pat, n))
    p = os.path.join(ctx.scratch, name)
    with open(p, "w") as f:
        f.write(text)
    return p


def model_check_cls(ctx, cfg="MCReloadClass_q.cfg", workers=6, timeout=900, bug=None, max_rl=None, expect_ok=True):
    subst = []
    if bug:
        subst.append((r"^  RBug <- RB_none$", "  RBug <- %s" % bug))
    if max_rl:
        subst.append((r"^  MaxRl = \d+$", "  MaxRl = %d" % max_rl))
    p = _cfg_with(ctx, cfg, "x%s_%s" % (bug or "", cfg), subst)
    r = ctx.tlc("MCReloadClass", p, workers=workers, timeout=timeout, heap="6g", seed=ctx.seed)
    if expect_ok and not r.ok:
        raise MachineryError("model MCReloadClass/%s violates %s on the unchanged specification:\n%s"
                             % (cfg, r.violated, r.violation_text[:3000]))
    return r


def sample_cls(ctx, n_chains, m_random, parts=4, timeout=900):
    """Seeded sample of chains old -> new1 -> new2 from MCReloadClassGen (workers=1 per run: RandomElement is then
    reproducible); returns (list of TLCResult, chains)."""
    per = (n_chains + parts - 1) // parts

    def one(k):
        p = _cfg_with(ctx, "MCReloadClassGen.cfg", "g%d_MCReloadClassGen.cfg" % k,
                      [(r"^  GenN = \d+$", "  GenN = %d" % per), (r"^  GenM = \d+$", "  GenM = %d" % m_random)])
        outp = os.path.join(ctx.scratch, "rg%d.out" % k)
        r = ctx.tlc("MCReloadClassGen", p, workers=1, timeout=timeout, stdout_path=outp, heap="3g", seed=ctx.seed * 1000 + k)
        c = CR._read_cases(outp)
        os.unlink(outp)
        return r, c
    with ThreadPoolExecutor(parts) as ex:
        res = list(ex.map(one, range(parts)))
    rs, chains = [], []
    for r, c in res:
        if not r.ok:
            raise MachineryError("sampling model MCReloadClassGen violates %s on the unchanged specification:\n%s"
                                 % (r.violated, r.violation_text[:3000]))
        if len(c) != per:
            raise MachineryError("MCReloadClassGen printed %d chains, expected %d" % (len(c), per))
        rs.append(r)
        chains.extend(c)
    return rs, chains


# ---- the daemon across reloads -----------------------------------------------------------------------------
class ReloadDaemon:
    """A daemon whose configuration file can be rewritten and re-read (SIGUSR1) with a hand-shake."""

    def __init__(self, build, workdir, svcs, modules=("iauth_xquery",), rules=None):
        self.build = build
        self.modules = modules
        try:
            os.unlink(os.path.join(workdir, LOGFILE))
        except OSError:
            pass
        self.d = D.Daemon(build, workdir, svcs, timeout="1h", modules=modules, rules=rules, logs=LOGS)
        self.logpath = os.path.join(workdir, LOGFILE)
        self.logpos = 0
        self.marks = 0

    def conf(self, svcs, rules=None, broken=False, omit_empty=False):
        """Text of a configuration file.  omit_empty: an empty section is left out of the file altogether (the
        documented meaning is the same: no entries)."""
        text = D.conf_text(self.build.moddir, svcs, timeout="1h", modules=self.modules, rules=rules, logs=LOGS)
        if omit_empty:
            text = text.replace("iauth_xquery {\n}\n", "").replace("iauth_class {\n}\n", "")
        return text + (BAD_TAIL if broken else "")

    def _scan_log(self):
        try:
            with open(self.logpath, "rb") as f:
                f.seek(self.logpos)
                data = f.read()
        except OSError:
            return
        # only complete lines are consumed
        i = data.rfind(b"\n")
        if i < 0:
            return
        self.marks += data[:i + 1].count(MARK)
        self.logpos += i + 1

    def reload(self, text, deadline=15.0):
        """Rewrite the configuration file, SIGUSR1, wait until the daemon has logged that it re-reads the file,
        then a barrier (the signal is handled inside the event loop; the barrier's answer is written after the
        handler has returned).  Returns ("ok", lines, inuse) | ("crash", lines, None); raises on a time-out
        while the process is alive."""
        d = self.d
        # the signal handler is installed after the start-up banner: make sure the event loop runs
        lines0, n0 = d.barrier()
        if n0 is None:
            return "crash", lines0, None
        self._scan_log()
        before = self.marks
        # administrators edit the file either way: every second reload overwrites it in place (same inode, often the same
        # size and the same second as the version the daemon has loaded), the others replace it by rename
        self.nreload = getattr(self, "nreload", 0) + 1
        if (self.nreload + os.getpid()) % 2:
            with open(d.conf_path, "r+") as f:
                f.seek(0)
                f.write(text)
                f.truncate()
        else:
            tmp = d.conf_path + ".new"
            with open(tmp, "w") as f:
                f.write(text)
            os.replace(tmp, d.conf_path)
        d.signal(signal.SIGUSR1)
        t_end = time.time() + deadline
        while True:
            self._scan_log()
            if self.marks > before:
                break
            if d.p.poll() is not None:
                d.dead = True
                return "crash", lines0, None
            if time.time() > t_end:
                raise MachineryError("reload hand-shake timed out: no '%s' line in %s after %.0fs (process alive)"
                                     % (MARK.decode(), self.logpath, deadline))
            time.sleep(0.0005)
        lines, n = d.barrier()
        if n is None:
            return "crash", lines0 + lines, None
        return "ok", lines0 + lines, n


def fmt_svcs(svcs):
    return "{" + ",".join("%s=%s" % (s["name"], s["type"]) for s in svcs) + "}"


_TAG = re.compile(r"^([0-9a-f]+)_([0-9a-f]+)$")


def rename_tags(outs):
    """Rename routing tags by order of first appearance (the serial component differs between the runs)."""
    names = {}
    res = []
    for o in outs:
        r = []
        for m in o:
            if m.get("k") == "X":
                m = dict(m)
                m["tag"] = names.setdefault(m["tag"], "T%d" % (len(names) + 1))
            r.append(m)
        res.append(r)
    return res


# ---- services: one job = one history of MCReload ---------------------------------------------------------------
def svc_job_of_history(h):
    """h: emitted history (list of [e, o, n, w]); -> job dict."""
    old = h[0]["e"]["svcs"]
    events = [{"ev": x["e"], "w": x["w"], "n": x["n"]} for x in h[1:]]
    files = [old] + [x["ev"]["svcs"] for x in events if x["ev"]["e"] == "RL"]
    return {"old": old, "events": events, "files": files, "sanity": False, "omit_empty": False}


def svc_names(jobs):
    names = set()
    for j in jobs:
        for f in j["files"]:
            names.update(s["name"] for s in f)
        for x in j["events"]:
            if x["ev"]["e"] == "X":
                names.add(x["ev"]["svc"])
    return sorted(names, key=lambda s: s.lower())


def svc_sig(job):
    pre = [R_short(x["ev"]) for x in job["events"] if x["w"] == "pre"]
    chain = " -> ".join(fmt_svcs(f) for f in job["files"])
    seq = " ".join(("RL" if x["ev"]["e"] == "RL" else "RLF" if x["ev"]["e"] == "RLF" else
                    ("*" if x["w"] == "probe" else "") + R_short(x["ev"])) for x in job["events"])
    return chain, seq


def R_short(e):
    k = e["e"]
    if k == "X":
        return "%d:X(%s,%s)" % (e.get("oid", -1), e["svc"], e["kind"])
    if k == "P":
        return "%d:P" % e["id"]
    if "id" in e:
        return "%d:%s" % (e["id"], k)
    return k


def run_svc_job(bld, workdir, job, names):
    """-> (records of the reloaded run, records of the fresh run, pair lines, info)."""
    info = {"steps": 0, "reloads": 0, "ub": set(), "handshake_s": 0.0}
    # ---- the long-running daemon
    # every third history also loads iauth_class with one `xreply_ok <service>` rule per service name of the universe (the
    # same rules in every file of the history and in the fresh daemon's file): which service a client's OK is credited to
    # then shows in the class of the verdict, so a slot table that is wrong in a way the queries do not reveal
    # (two records of one name, a stale type) still makes the reloaded daemon differ from the fresh one
    rules = None
    mods = ("iauth_xquery",)
    if job.get("xr_rules"):
        rules = [{"name": "r%d" % k, "xreply_ok": nm, "class": "cls%d" % k} for k, nm in enumerate(sorted(names))] \
            + [{"name": "rz", "class": "clsz"}]
        mods = ("iauth_xquery", "iauth_class")
    rd = ReloadDaemon(bld, workdir, job["old"], modules=mods, rules=rules)
    d = rd.d
    recsL = [D.reset_record(job["old"], True, {"names": names})]
    crashed = d.dead
    if crashed:
        recsL.append({"e": "Crash", "ev": {"e": "startup"}, "partial": []})
    cur = job["old"]
    probe_out_L = []
    for x in job["events"]:
        if crashed:
            break
        e = x["ev"]
        if e["e"] in ("RL", "RLF"):
            t0 = time.time()
            if e["e"] == "RL":
                st, lines, n = rd.reload(rd.conf(e["svcs"], rules=rules, omit_empty=bool(job.get("omit_empty"))))
                cur = e["svcs"]
            else:
                # a file that must be rejected as a whole: no services at all, then a syntax error
                st, lines, n = rd.reload(rd.conf([], rules=rules, broken=True))
            info["handshake_s"] += time.time() - t0
            info["reloads"] += 1
            out = [d.parse_line(l) for l in lines]
            if st == "crash":
                recsL.append({"e": "Crash", "ev": e, "partial": out})
                crashed = True
                break
            recsL.append({"e": "S", "ev": e, "o": out, "n": n})
            continue
        rec = d.step(e)
        info["steps"] += 1
        recsL.append(rec)
        if rec["e"] == "Crash":
            crashed = True
            break
        if x["w"] == "probe":
            probe_out_L.append(rec["o"])
    # cleanup: every client the history announced is withdrawn, so that the exit status / leak check is meaningful
    if not crashed:
        for i in sorted({x["ev"]["id"] for x in job["events"] if x["ev"]["e"] == "C"}):
            rec = d.step({"e": "D", "id": i})
            recsL.append(rec)
            if rec["e"] == "Crash":
                crashed = True
                break
    rc, san, ub = d.close(wait=5 if crashed else 15)
    info["ub"].update(ub)
    if not crashed:
        recsL.append({"e": "Eof", "exit": (rc if rc is not None else -9), "san": san[:600]})
    info["crashed_L"] = crashed
    info["san_L"] = san[:600]
    # ---- the fresh daemon on the file in force at the end
    rf = ReloadDaemon(bld, workdir, cur, modules=mods, rules=rules)
    f = rf.d
    recsF = [D.reset_record(cur, True, {"names": names})]
    crashedF = f.dead
    probe_out_F = []
    probes = [x["ev"] for x in job["events"] if x["w"] == "probe"]
    # routing tags: the k-th announcement of the fresh run gets serial k
    serialL, serialF, tagmap = 0, 0, {}
    for x in job["events"]:
        if x["ev"]["e"] == "C":
            serialL += 1
            if x["w"] == "probe":
                serialF += 1
                tagmap["%x_%x" % (x["ev"]["id"], serialL)] = "%x_%x" % (x["ev"]["id"], serialF)
    for e in probes:
        if crashedF:
            break
        if e["e"] == "X":
            e = dict(e)
            e["tag"] = tagmap.get(e["tag"], "0_0")
        rec = f.step(e)
        info["steps"] += 1
        recsF.append(rec)
        if rec["e"] == "Crash":
            crashedF = True
            break
        probe_out_F.append(rec["o"])
    if not crashedF:
        for i in sorted({e["id"] for e in probes if e["e"] == "C"}):
            recsF.append(f.step({"e": "D", "id": i}))
    rc, san, ub = f.close(wait=5 if crashedF else 15)
    info["ub"].update(ub)
    if not crashedF:
        recsF.append({"e": "Eof", "exit": (rc if rc is not None else -9), "san": san[:600]})
    # ---- pair lines
    pairs = []
    pa = rename_tags([probe_out_L[k] if k < len(probe_out_L) else [{"k": "MISSING"}] for k in range(len(probes))])
    pb = rename_tags([probe_out_F[k] if k < len(probe_out_F) else [{"k": "MISSING"}] for k in range(len(probes))])
    for k, e in enumerate(probes):
        pairs.append({"k": k, "kind": "config" if e["e"] == "QC" else "step", "a": pa[k], "b": pb[k]})
    info["ub"] = sorted(info["ub"])
    return recsL, recsF, pairs, info


def _svc_worker(args):
    (bargs, workdir, jobs, names, tag) = args
    bld = _build_of(bargs)
    os.makedirs(workdir, exist_ok=True)
    trace = os.path.join(workdir, "trace.ndjson")
    diff = os.path.join(workdir, "diff.ndjson")
    tindex, dindex = [], []
    tot = {"steps": 0, "reloads": 0, "handshake_s": 0.0, "ub": set(), "crashed": 0, "jobs": 0}
    with open(trace, "w") as tf, open(diff, "w") as df:
        for ji, job in jobs:
            recsL, recsF, pairs, info = run_svc_job(bld, workdir, job, names)
            tot["jobs"] += 1
            tot["steps"] += info["steps"]
            tot["reloads"] += info["reloads"]
            tot["handshake_s"] += info["handshake_s"]
            tot["ub"].update(info["ub"])
            tot["crashed"] += 1 if info["crashed_L"] else 0
            for which, recs in (("L", recsL), ("F", recsF)):
                for si, r in enumerate(recs):
                    tf.write(json.dumps(r, separators=(",", ":")) + "\n")
                    tindex.append((ji, which, si))
            for p in pairs:
                p["id"] = ji
                df.write(json.dumps(p, separators=(",", ":")) + "\n")
                dindex.append((ji, p["k"]))
    tot["ub"] = sorted(tot["ub"])
    tot.update(trace=trace, diff=diff, tindex=tindex, dindex=dindex)
    return tot


def _bargs(ctx):
    b = ctx.build
    return (b.root, b.moddir, b.daemon)


def replay_svc(ctx, jobs, nproc=12, tag="rs"):
    names = svc_names(jobs)
    items = list(enumerate(jobs))
    nproc = max(1, min(nproc, len(items)))
    chunks = [items[i::nproc] for i in range(nproc)]
    args = [(_bargs(ctx), os.path.join(ctx.scratch, "%s-w%d" % (tag, n)), ch, names, tag) for n, ch in enumerate(chunks)]
    if nproc == 1:
        return [_svc_worker(args[0])]
    return _core.pool_map(_svc_worker, args, nproc)


# ---- validation (TLC is the oracle) -------------------------------------------------------------------------------
def _printed(r):
    v, d, n = [], [], []
    for line in r.printed:
        s = T.unquote_printed(line)
        if s.startswith("@@V"):
            v.append(json.loads(s[3:]))
        elif s.startswith("@@D"):
            d.append(json.loads(s[3:]))
        elif s.startswith("@@N"):
            n.append(json.loads(s[3:]))
    return v, d, n


def validate_diff(ctx, res, timeout=900):
    """ReloadDiff on one worker's pair lines -> list of (job index, k)."""
    n = len(res["dindex"])
    if n == 0:
        return []
    r = ctx.tlc("ReloadDiff", "ReloadDiff.cfg", workers=1, timeout=timeout, env={"TRACE": res["diff"]}, heap="3g")
    if not r.ok or (r.distinct != n + 1 and r.depth != n + 1):
        raise MachineryError("ReloadDiff run failed or did not consume the file (%s, %d of %d)\n%s"
                             % (r.violated, r.distinct, n + 1, r.output[-1500:]))
    v, _, _ = _printed(r)
    return [tuple(res["dindex"][x["l"] - 1]) for x in v]


def validate_trace(ctx, res, timeout=900):
    """ReloadTrace on one worker's traces -> (violations [(ji, which, si, conjuncts)], drifts [(ji, which, si, want)])."""
    n = len(res["tindex"])
    if n == 0:
        return [], []
    r = ctx.tlc("ReloadTrace", "ReloadTrace.cfg", workers=1, timeout=timeout, env={"TRACE": res["trace"]}, heap="3g",
                java_opts=["-Xss256m"])      # the file-tree walk recurses over the entries of a section
    if not r.ok:
        raise MachineryError("ReloadTrace run failed (%s):\n%s" % (r.violated, r.violation_text[:3000]))
    if r.depth != n + 1 and r.distinct != n + 1:
        raise MachineryError("trace %s not consumed: %d lines, TLC depth %d, %d states\n%s"
                             % (res["trace"], n, r.depth, r.distinct, r.output[-2000:]))
    v, d, _ = _printed(r)
    viol = [tuple(res["tindex"][x["l"] - 1]) + (sorted(x["v"]),) for x in v]
    drift = [tuple(res["tindex"][x["l"] - 1]) + (x.get("want"),) for x in d]
    return viol, drift


def validate_svc(ctx, results, nthreads=8):
    def one(res):
        return validate_diff(ctx, res), validate_trace(ctx, res)
    bad, viol, drift = [], [], []
    with ThreadPoolExecutor(nthreads) as ex:
        for b, (v, d) in ex.map(one, results):
            bad.extend(b)
            viol.extend(v)
            drift.extend(d)
    return bad, viol, drift


def run_svc_single(ctx, job, tag="single"):
    """One job on a fresh pair of processes, validated; -> (bad pairs, violations, drifts, worker result)."""
    sub = os.path.join(ctx.scratch, "%s-%d" % (tag, int(time.time() * 1e6) % 10**9))
    res = _svc_worker((_bargs(ctx), sub, [(0, job)], svc_names([job]), tag))
    bad = validate_diff(ctx, res)
    viol, drift = validate_trace(ctx, res)
    return bad, viol, drift, res


def read_lines(path):
    with open(path) as f:
        return [json.loads(x) for x in f]


# ---- class rules: one job = one chain old -> new1 -> new2 -----------------------------------------------------------
def _probe_clients(d, clients, svcs, idbase, variant_of, stats, pending_first=None):
    """Drive the clients one after the other through daemon d (data lines of client j+1 before the replies of
    client j, as C11 does).  Returns list of ClientRun (with .skipped)."""
    runs, seq = {}, []
    for n, cli in enumerate(clients):
        cid = idbase + 5 * n
        cr = CR.ClientRun(cid, cli, svcs, variant_of(cli))
        cr.skipped = not cr.renderable()
        runs[cid] = cr
        seq.append(cr)
    state = {"crashed": d.dead}

    def feed(line, who):
        if state["crashed"]:
            return
        lines, n = d.raw_step(line.encode() + b"\n")
        stats["steps"] += 1
        for ln in lines:
            cr, w, s = CR._route(ln, runs)
            if cr is not None:
                cr.observe(w, s)
        if n is None:
            state["crashed"] = True

    def do_finish(cr):
        for line in cr.finish():
            feed(line, cr)
            if state["crashed"]:
                break
    prev = None
    for cr in seq:
        if cr.skipped:
            continue
        for line in cr.data():
            if cr.verdicts:
                cr.early = True
                break
            feed(line, cr)
        if prev is not None:
            do_finish(prev)
        prev = cr
    if prev is not None:
        do_finish(prev)
    return seq, state["crashed"]


def _variant(cli):
    import zlib
    return zlib.crc32(json.dumps(cli, sort_keys=True).encode())


def run_cls_job(bld, workdir, job):
    """job: {"svcs", "chain": [old, new1, new2], "clis", "pre": "idle"|"done"|"pending"}.
    -> (case records of the reloaded run (ClassTrace lines, with the table in force), pair lines, info)."""
    svcs = CR.render_svcs(job["svcs"])
    chain = job["chain"]
    clis = job["clis"]
    info = {"steps": 0, "reloads": 0, "ub": set(), "crashed": False, "san": "", "rc": 0}
    stats = {"steps": 0}
    rd = ReloadDaemon(bld, workdir, svcs, modules=("iauth_class",), rules=CR.render_rules(chain[0]))
    d = rd.d
    cases, pairs = [], []
    crashed = d.dead
    # earlier activity on the old table
    held = None
    if not crashed and job["pre"] == "done" and clis:
        _, crashed = _probe_clients(d, clis[:2], svcs, 3, _variant, stats)
    elif not crashed and job["pre"] == "pending" and clis:
        held = CR.ClientRun(3, clis[0], svcs, _variant(clis[0]))
        if held.renderable():
            for line in held.data():
                lines, n = d.raw_step(line.encode() + b"\n")
                stats["steps"] += 1
                for ln in lines:
                    cr, w, s = CR._route(ln, {3: held})
                    if cr is not None:
                        cr.observe(w, s)
                if n is None:
                    crashed = True
                    break
        else:
            held = None
    obsL = {}
    confL = {}
    for t in (1, 2):
        if crashed:
            break
        st, lines, n = rd.reload(rd.conf(svcs, rules=CR.render_rules(chain[t]), omit_empty=bool(job.get("omit_empty"))))
        info["reloads"] += 1
        if st == "crash":
            crashed = True
            break
        rec = d.step({"e": "QC"})
        stats["steps"] += 1
        if rec["e"] == "Crash":
            crashed = True
            break
        confL[t] = rec["o"]
        if held is not None and t == 1:
            # the client that was awaited across the reload is finished first (not compared)
            for line in held.finish():
                lines, n = d.raw_step(line.encode() + b"\n")
                stats["steps"] += 1
                for ln in lines:
                    cr, w, s = CR._route(ln, {3: held})
                    if cr is not None:
                        cr.observe(w, s)
                if n is None:
                    crashed = True
                    break
            if not held.verdicts and not crashed:
                d.raw_step(b"3 D\n")
        if crashed:
            break
        seq, crashed = _probe_clients(d, clis, svcs, 1000 * t + 3, _variant, stats)
        obsL[t] = seq
    rc, san, ub = d.close(wait=5 if crashed else 15)
    info["ub"].update(ub)
    info["crashed"] = crashed
    info["rc"], info["san"] = rc, san[:800]
    # fresh daemons
    obsF, confF = {}, {}
    for t in (1, 2):
        rf = ReloadDaemon(bld, workdir, svcs, modules=("iauth_class",), rules=CR.render_rules(chain[t]))
        f = rf.d
        if f.dead:
            obsF[t] = None
            f.close(wait=5)
            continue
        rec = f.step({"e": "QC"})
        stats["steps"] += 1
        confF[t] = rec.get("o", [{"k": "CRASH"}])
        seq, cr_f = _probe_clients(f, clis, svcs, 1000 * t + 3, _variant, stats)
        obsF[t] = seq
        rc2, san2, ub = f.close(wait=5 if cr_f else 15)
        info["ub"].update(ub)
    # records
    k = 0
    for t in (1, 2):
        a_conf = confL.get(t, [{"k": "CRASH" if crashed else "MISSING"}])
        pairs.append({"k": k, "kind": "config", "t": t, "ci": -1, "a": a_conf, "b": confF.get(t, [{"k": "MISSING"}])})
        k += 1
        for ci, cli in enumerate(clis):
            la = obsL[t][ci] if t in obsL else None
            fb = obsF[t][ci] if obsF.get(t) else None
            if (la is not None and la.skipped) or (fb is not None and fb.skipped):
                continue
            oa = la.obs(crashed) if la is not None else {"v": "crash" if crashed else "none", "cls": [], "acct": [], "u": [], "nv": 0, "est": False}
            ob = fb.obs(False) if fb is not None else {"v": "none", "cls": [], "acct": [], "u": [], "nv": 0, "est": False}
            pairs.append({"k": k, "kind": "case", "t": t, "ci": ci, "a": oa, "b": ob})
            k += 1
            if la is not None:
                cases.append({"e": "Case", "svcs": job["svcs"], "rules": chain[t], "cli": cli, "obs": oa, "t": t, "ci": ci})
    info["steps"] = stats["steps"]
    info["ub"] = sorted(info["ub"])
    return cases, pairs, info


def _cls_worker(args):
    (bargs, workdir, jobs, tag) = args
    bld = _build_of(bargs)
    os.makedirs(workdir, exist_ok=True)
    trace = os.path.join(workdir, "ctrace.ndjson")
    diff = os.path.join(workdir, "cdiff.ndjson")
    tindex, dindex = [], []
    tot = {"steps": 0, "reloads": 0, "ub": set(), "crashed": 0, "jobs": 0, "bad_exit": 0, "san": []}
    with open(trace, "w") as tf, open(diff, "w") as df:
        for ji, job in jobs:
            cases, pairs, info = run_cls_job(bld, workdir, job)
            tot["jobs"] += 1
            tot["steps"] += info["steps"]
            tot["reloads"] += info["reloads"]
            tot["ub"].update(info["ub"])
            tot["crashed"] += 1 if info["crashed"] else 0
            if info["rc"] != 0 or info["san"]:
                tot["bad_exit"] += 1
                if len(tot["san"]) < 3:
                    tot["san"].append({"job": ji, "rc": info["rc"], "san": info["san"]})
            for c in cases:
                t, ci = c.pop("t"), c.pop("ci")
                tf.write(json.dumps(c, separators=(",", ":")) + "\n")
                tindex.append((ji, t, ci))
            for p in pairs:
                p["id"] = ji
                df.write(json.dumps(p, separators=(",", ":")) + "\n")
                dindex.append((ji, p["t"], p["ci"]))
    tot["ub"] = sorted(tot["ub"])
    tot.update(trace=trace, diff=diff, tindex=tindex, dindex=dindex)
    return tot


def replay_cls(ctx, jobs, nproc=12, tag="rc"):
    items = list(enumerate(jobs))
    nproc = max(1, min(nproc, len(items)))
    chunks = [items[i::nproc] for i in range(nproc)]
    args = [(_bargs(ctx), os.path.join(ctx.scratch, "%s-w%d" % (tag, n)), ch, tag) for n, ch in enumerate(chunks)]
    if nproc == 1:
        return [_cls_worker(args[0])]
    return _core.pool_map(_cls_worker, args, nproc)


def validate_cls(ctx, results, nthreads=8):
    """-> (bad pairs [(ji, t, ci)], contract findings on the reloaded run [(ji, t, ci, conjuncts, want)],
          drift lines [(ji, t, ci, want)], not-accepted count)"""
    def one(res):
        bad = []
        n = len(res["dindex"])
        if n:
            r = ctx.tlc("ReloadDiff", "ReloadDiff.cfg", workers=1, timeout=900, env={"TRACE": res["diff"]}, heap="3g")
            if not r.ok or (r.distinct != n + 1 and r.depth != n + 1):
                raise MachineryError("ReloadDiff run failed or did not consume the file (%s, %d of %d)\n%s"
                                     % (r.violated, r.distinct, n + 1, r.output[-1500:]))
            v, _, _ = _printed(r)
            bad = [tuple(res["dindex"][x["l"] - 1]) for x in v]
        v, dr, na = CR.validate_trace(ctx, res["trace"], len(res["tindex"]))
        viol = [tuple(res["tindex"][x["l"] - 1]) + (sorted(x["v"]), x.get("want")) for x in v]
        drift = [tuple(res["tindex"][x["l"] - 1]) + (x.get("want"),) for x in dr]
        return bad, viol, drift, len(na)
    bad, viol, drift, nna = [], [], [], 0
    with ThreadPoolExecutor(nthreads) as ex:
        for b, v, d, n in ex.map(one, results):
            bad.extend(b)
            viol.extend(v)
            drift.extend(d)
            nna += n
    return bad, viol, drift, nna


def run_cls_single(ctx, job, tag="csingle"):
    sub = os.path.join(ctx.scratch, "%s-%d" % (tag, int(time.time() * 1e6) % 10**9))
    res = _cls_worker((_bargs(ctx), sub, [(0, job)], tag))
    bad, viol, drift, nna = validate_cls(ctx, [res], nthreads=1)
    return bad, viol, drift, res


def cls_chain_short(job):
    return " -> ".join("[" + " | ".join(CR.rule_short(r) for r in tbl) + "]" for tbl in job["chain"])
