CONSTANTS
  ARGV = 2
  Bug <- NoBug
  Alphabet <- Sigma7
  MaxLen = 7
  MaxChunk = 7
  Streams <- AllStreams
INIT RInit
NEXT RNext
INVARIANT DeliveredIsContract
INVARIANT BufferIsTail
INVARIANT ArgvInBounds
INVARIANT EofClean
