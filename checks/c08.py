"""C08 Arbitrary input cannot crash or derail the daemon.

Specification: spec/ReadLineOps.tla + ReadLine.tla (input layer: evbuffer, line splitter, tokenizer, dispatch class;
contract = the delivered lines are a function of the concatenated byte stream), model-checked by MCReadLine.
Conformance on the real ASan/UBSan daemon (vlib/bytesrun.py), judged by TLC (spec/ReadLineTrace.tla):
  (a) behaviours of the daemon model with junk lines, rendered to one byte stream and delivered line by line, in one
      write, in 2-chunk and k-chunk splits, byte by byte, and cut off at a byte (peer death), each compared with
      the clean line-at-a-time run of the same history without junk (two REAL runs); junk lines are also GLUED in front
      of well-formed lines (no barrier line in between: same read() chunk, same call of iauth_read()), systematically
      every junk form x every line kind sent with its minimum number of parameters (adjacency family); and chunks
      of exactly k * 4096 bytes (the daemon's read size) ending in a barrier line are written with the input kept
      OPEN: the barrier's answer must come without further input (prompt deliveries, ReadLine!NoLineWaiting);
  (b) byte-level cases: all short byte strings over a 12-symbol alphabet and mutations of valid lines as subject,
      followed by probes (the addressed client, then a fresh well-formed client)."""
import json
import time
from concurrent.futures import ThreadPoolExecutor

from vlib import bytesrun as BR
from vlib import daemon as D
from vlib import iauthrun as R
from vlib.core import MachineryError

LEVEL = "model_checking"
TITLE = "arbitrary input cannot crash or derail the daemon (splitter/tokenizer spec, chunking, junk, peer death)"


# ---- junk lines (unknown ids, unknown commands, malformed replies, blank / over-long / many-argument lines) -----
def junk_forms(i, tag, rng, huge=False):
    """Raw junk lines (latin-1 text) for a stream in which client i may be live with routing tag `tag`.
    Every one is junk whatever the daemon's state: no command, unknown id, unknown command letter, or a reply
    that is malformed (too few parameters, malformed tag, unknown reply word)."""
    u = i + 1000
    words = " ".join("w%d" % k for k in range(1, 21))
    forms = [
        "", "\r", " ", "   ", "\t", "%d" % i, "%d " % i, " %d" % u, "\x00",
        "%d Z foo bar" % i, "%d z" % i, "%d 9 :x y" % i, "%d Z a\x00b" % i, "%d \xff\xfe\x80" % i, "%d Q %s" % (i, words),
        "%d Z %s" % (i, " ".join("w%d" % k for k in range(1, 15))), "%d Z %s" % (i, " ".join("w%d" % k for k in range(1, 16))),
        "%d Z %s :t r" % (i, " ".join("w%d" % k for k in range(1, 15))),
        "%d Z %s :t r" % (i, " ".join("w%d" % k for k in range(1, 16))),
        "%d N host.example" % u, "%d U user :real name" % u, "%d H Others" % u, "%d D" % u, "%d P :+x! acc pw" % u,
        "%d N ho\x00st" % u, "%d Z %s" % (u, words), "%d N %s" % (u, "y" * 600), "Z", "N host.example", ":", "%d :" % i, "%d :Z" % u,
        "-1 X", "-1 X a1.svc", "-1 X a1.svc %s" % tag, "-1 x a1.svc", "-1 x a1.svc %s" % tag, "-1 X a1.svc %s :HELLO there" % tag,
        "-1 X a1.svc %sx :OK acct" % tag, "-1 X a1.svc %s_ :OK" % tag, "-1 X a1.svc _ :NO x", "-1 X a1.svc zz :OK",
        "-1 Z", "-1 9", "-1", "-1 ", "-1 ?", "-1 ? bogus",
        "-1 N foo", "-1 H", "-1 U a :b", "-1 T", "%d U name" % i,
        # ids that do not fit an int are unknown ids too (D19: they used to be truncated and could alias client i)
        "%d H Others" % (4294967296 + i), "%d D" % (4294967296 + i), "%d N host.example" % (-4294967296 + i),
        "9223372036854775807 N x", "%d P :+x acc pw" % (8589934592 + i), "99999999999999999999999 D",
    ]
    n = rng.choice([511, 512, 513, 1023, 1024, 1025, 4095, 4096, 4097, 8192, 9000])
    forms.append("%d Z %s" % (u, "y" * (n - len("%d Z " % u))))
    forms.append("%d Z %s" % (i, ("ab " * (n // 3))))
    # an over-long junk line whose tail, taken by itself, would be a command for the live client (a reader that gives up on
    # a long line in the middle must not treat the rest as a line of its own)
    forms.append("%d Z %s %d D" % (u, "y" * rng.choice([8200, 9000, 12300, 16500]), i))
    forms.append("%d Z %s %d H Others" % (u, "y " * rng.choice([4100, 4600, 8200]), i))
    forms.append(periodic_junk(i, rng))
    if huge:
        forms = forms[-2:] + ["%d Z %s" % (u, "y" * 70000), "%d Q %s" % (i, "ab " * 30000), "\t" * 66000]
    return forms


def periodic_junk(i, rng):
    """An over-long junk line every suffix of which reads like a command for client i ("<i> D <i> D ..." after an unknown
    id and command letter; the padding shifts the period against whatever boundary a reader might cut at)."""
    unit = rng.choice(["%d D " % i, "%d T " % i, "%d H Others " % i])
    n = rng.choice([8300, 9000, 12400, 16500, 20600, 33000])
    return "%d Z %s%s" % (i + 1000, "q" * rng.randrange(len(unit)) + " ", unit * (n // len(unit)))


class Renderer(D.Daemon):
    """daemon.render() without a process (texts are a function of the event only)."""

    def __init__(self):
        self.res = D.Resolver()
        self.addr_text = D.default_addr_text


def splice_junk(ctx, events, svcs, density, huge=False):
    """items for bytesrun: the history's events (junk events of the model included) plus raw junk lines."""
    rng = ctx.rng
    items = []
    serial = 0
    cur = {}
    last_id = 5
    crlf_mode = rng.choice(["lf", "crlf", "mix", "mix"])

    def crlf():
        return crlf_mode == "crlf" or (crlf_mode == "mix" and rng.random() < 0.5)

    def add_junk():
        i = last_id
        tag = "%x_%x" % (i, cur.get(i, 0))
        forms = junk_forms(i, tag, rng, huge)
        tagged = [x for x in forms if tag in x]
        f = rng.choice(tagged) if (tagged and not huge and rng.random() < 0.3) else rng.choice(forms)
        if not huge and rng.random() < 0.05:
            f = periodic_junk(i, rng)
        items.append({"ev": None, "raw": f, "junk": True, "crlf": crlf() and "\r" not in f})
    for e in events:
        while rng.random() < density:
            add_junk()
        if e["e"] == "C":
            serial += 1
            cur[e["id"]] = serial
            last_id = e["id"]
        elif "id" in e:
            last_id = e["id"]
        items.append({"ev": e, "raw": None, "junk": e["e"] == "J", "crlf": crlf()})
    while rng.random() < density:
        add_junk()
    return items


def junk_context(items):
    """Per item: (client id, its routing tag) a junk line written in front of that item should talk about."""
    out = []
    serial, cur, last = 0, {}, 5
    for it in items:
        out.append((last, "%x_%x" % (last, cur.get(last, 0))))
        e = it["ev"]
        if e is not None:
            if e["e"] == "C":
                serial += 1
                cur[e["id"]] = serial
            if "id" in e:
                last = e["id"]
    return out


PAD_STYLES = ["lines", "late", "long", "blank", "crlf"]


def glue_variants(ctx, items, n):
    """n deliveries with junk lines glued in front of randomly chosen lines of the history (one write / a write per line)."""
    rng = ctx.rng
    jc = junk_context(items)
    var = []
    for _ in range(n):
        glue = []
        for k, it in enumerate(items):
            if rng.random() < (0.6 if (it["ev"] or {}).get("e") == "u0" else 0.25):
                forms = [f for f in junk_forms(jc[k][0], jc[k][1], rng) if len(f) < 1500]
                # every second one: a line for an unknown id that carries parameters
                f = rng.choice([x for x in forms if x.startswith("%d " % (jc[k][0] + 1000))] if rng.random() < 0.5 else forms)
                glue.append([k, f, ("\r" not in f) and rng.random() < 0.3])
        if glue:
            var.append({"mode": rng.choice(["whole", "lines", "lines", "sep"]), "glue": glue})
    return var


def prompt_variants(ctx, items, n, kmax=3):
    """n deliveries with one chunk of exactly k * 4096 bytes (lines q..p and their barriers, padded with junk lines in front)
    after which the input stays open until the last barrier is answered."""
    rng = ctx.rng
    var = []
    for _ in range(n):
        p = rng.randrange(len(items))
        q = rng.randrange(max(0, p - 6), p + 1)
        var.append({"mode": "prompt", "q": q, "p": p, "k": rng.choice([1, 1] + list(range(2, kmax + 1))),
                    "style": rng.choice(PAD_STYLES), "uid": 1000 + junk_context(items)[q][0]})
    return var


def make_variants(ctx, items, exact_lines, budget):
    """Delivery variants for one history.  exact_lines: rendered lines (to place cuts); budget: dict of counts."""
    rng = ctx.rng
    lay, total = BR.layout(exact_lines)
    var = [{"mode": "lines"}, {"mode": "whole"}]
    var += glue_variants(ctx, items, budget.get("nglue", 0))
    var += prompt_variants(ctx, items, budget.get("nprompt", 0), budget.get("kmax", 3))
    if budget.get("bytes"):
        var.append({"mode": "bytes"})
    # 2-chunk splits
    if budget.get("all2"):
        cuts = list(range(1, total))
    else:
        cuts = sorted(rng.sample(range(1, total), min(budget.get("n2", 0), total - 1)))
    # always: the interesting places (just before / after every LF, between CR and LF, inside the leading number,
    # inside routing tags)
    special = set()
    for (a, b, c), ln in zip(lay, exact_lines):
        special.update((b - 1, b, a + 1, c - 1))
        if ln.endswith(b"\r\n"):
            special.add(b - 2)
        k = ln.find(b"_")
        if k > 0:
            special.update((a + k, a + k + 1))
    special = [x for x in sorted(special) if 0 < x < total]
    if budget.get("special"):
        pick = special if budget["special"] >= len(special) else rng.sample(special, budget["special"])
        cuts = sorted(set(cuts) | set(pick))
    for c in cuts:
        var.append({"mode": "split", "cuts": [c]})
    if budget.get("every"):
        var.append({"mode": "split", "cuts": list(range(budget["every"], total, budget["every"]))})
    # all line ends at once, all CR|LF at once
    var.append({"mode": "split", "cuts": [b - 1 for (a, b, c) in lay] + [c - 1 for (a, b, c) in lay]})
    for _ in range(budget.get("nk", 0)):
        k = rng.choice([2, 3, 5, 8, 13, 30])
        var.append({"mode": "split", "cuts": sorted(rng.sample(range(1, total), min(k, total - 1)))})
    # peer death
    if budget.get("alltrunc"):
        tr = list(range(0, total))
    else:
        tr = sorted(set(rng.sample(range(0, total), min(budget.get("ntrunc", 0), total)))
                    | set(rng.sample(special, min(len(special), budget.get("strunc", 0)))))
    for t in tr:
        v = {"mode": "whole", "trunc": t}
        if t > 2 and rng.random() < 0.3:
            v = {"mode": "split", "cuts": sorted(rng.sample(range(1, t), min(3, t - 1))), "trunc": t}
        var.append(v)
    return var


# ---- (a) histories ---------------------------------------------------------------------------------------------
def item_short(it):
    if it["raw"] is not None:
        r = it["raw"]
        return "junk%r" % (r if len(r) <= 40 else r[:24] + "...(%d bytes)" % len(r))
    return R.ev_short(it["ev"])


def history_jobs(ctx, behaviours, svcs, nhist, budget, density=0.35, huge=0):
    jobs = []
    rend = Renderer()
    for n, b in enumerate(behaviours[:nhist]):
        base = [e for e in b]
        events = base + R.probe_tail([e for e in base if e["e"] != "J"], svcs) + R._cleanup_events(base)
        items = splice_junk(ctx, events, svcs, density, huge=(n < huge))
        lines = BR.render_items(rend, items)
        bud = dict(budget)
        if n < huge:
            bud.update(all2=False, alltrunc=False, bytes=(n == 0 and budget.get("huge_bytes", False)), n2=6, ntrunc=6, every=777)
        elif n >= budget.get("full_for", 0):
            bud.update(all2=False, alltrunc=False)
        jobs.append({"rid": len(jobs), "svcs": svcs, "items": items, "variants": make_variants(ctx, items, lines, bud)})
    return jobs


def describe(job, var, rec):
    items = job["items"]
    mode = var["mode"] + ("+eof" if var.get("trunc") is not None else "") + ("+glue" if var.get("glue") else "")
    if rec["e"] == "Prompt":
        return mode, "no answer to the barrier after %s while the input stays open (chunk of k * 4096 bytes, padding %s)" % (
            item_short(items[var["p"]]), var.get("style"))
    if rec["e"] == "S":
        k = rec["k"] - 1
    elif rec.get("done", 0) < rec.get("want", 0):
        k = rec["done"]                     # the first step that did not finish
    else:
        k = rec.get("want", 0)
    at = item_short(items[k]) if 0 <= k < len(items) else "end"
    prev = item_short(items[k - 1]) if 0 < k <= len(items) else "start"
    g = [x[1] for x in (var.get("glue") or []) if x[0] == k]
    if g:
        prev = "glued junk %r" % (g[-1] if len(g[-1]) <= 40 else g[-1][:24] + "...(%d bytes)" % len(g[-1]))
    return mode, "%s after %s" % (at, prev)


def report_stream_findings(ctx, findings, jobs, results, table):
    jobmap = {j["rid"]: j for j in jobs}
    seen = set()
    nprompt = 0
    for f in findings:
        rid, vi = f["key"]
        job = jobmap[rid]
        rec = BR.trace_line(f["trace"], f["l"])
        if vi < 0:
            var = {"mode": "reference"}
        else:
            var = job["variants"][vi]
        mode, where = describe(job, var, rec) if vi >= 0 else ("reference", "clean line-at-a-time run")
        if f["kind"] == "D":
            ctx.drift("%s: %s (%s)" % (f["d"], where, mode), {"variant": var, "observed": rec})
            continue
        conj = "+".join(f["v"])
        sig = "%s: %s: %s" % (conj, mode, where)
        if "prompt" in f["v"]:
            # (every second opinion of a late answer costs the whole time-out)
            if nprompt >= 2:
                continue
            nprompt += 1
        if sig in seen or len(seen) >= 6:
            continue
        seen.add(sig)
        # second opinion on fresh processes
        one = dict(job)
        one["variants"] = [var] if vi >= 0 else []
        res2 = BR.run_histories(ctx, [one], nproc=1, tag="again%d" % len(seen), stop_after=99)
        f2 = [g for g in BR.validate_all(ctx, res2, nthreads=1) if g["kind"] == "V" and set(g["v"]) & set(f["v"])]
        if not f2:
            ctx.note("violation of %s did not repeat on a fresh daemon: %s (not reported)" % (conj, sig))
            continue
        rec2 = BR.trace_line(f2[0]["trace"], f2[0]["l"])
        ctx.violation("stream delivered as %s: conjunct(s) %s fail at %s; observed %s"
                      % (json.dumps({k: v for k, v in var.items() if k not in ("cuts", "glue") or len(v) < 12}), conj, where,
                         json.dumps({k: rec2[k] for k in rec2 if k in ("k", "oc", "roc", "n", "rn", "exit", "san", "hang", "died", "done",
                                                                    "want", "restc", "rrefc", "due", "got", "ms", "len")})[:900]),
                      conj, sig, {"kind": "stream", "table": table, "svcs": job["svcs"], "items": job["items"], "variant": var})


def histories(ctx, name, table, nhist, budget, nstd, huge=0, barrage=False, adjacency=(), adj_full=False, **mc):
    svcs = R.SERVICE_TABLES[table]
    t0 = time.time()
    r, beh = R.model_check(ctx, name, table, want_behaviours=True, junk=True, **mc)
    ctx.model_checked(r)
    behaviours = [[s["e"] for s in b] for b in beh]
    ctx.rng.shuffle(behaviours)
    behaviours.sort(key=lambda b: -sum(1 for e in b if e["e"] == "J"))
    withjunk = [b for b in behaviours if any(e["e"] == "J" for e in b)]
    t1 = time.time()
    # (i) one line per write, every step awaited; judged by the daemon contract and compared with B (junk = stutter)
    std = [b + R.probe_tail(b, svcs) for b in (withjunk[:nstd] or behaviours[:nstd])]
    res = R.replay(ctx, std, svcs, True, tag=name + "-std", nproc=6)
    fstd = R.validate_all(ctx, res)
    R.report(ctx, fstd, std, svcs, set(), True, table=table, crash_is_own=True)
    stdsteps = sum(x["steps"] for x in res)
    junk_steps = R.trace_stats(res)["junk"]
    t2 = time.time()
    # (ii)-(iv) stream deliveries against the clean reference
    pool = withjunk[nstd:] + withjunk[:nstd] + behaviours
    pool = [b for b in pool if len(b) >= 3]
    jobs = history_jobs(ctx, pool, svcs, nhist, budget, huge=huge)
    if barrage:
        jobs.append(barrage_job(ctx, svcs, len(jobs)))
    for tb in adjacency:
        aj = adjacency_job(ctx, R.SERVICE_TABLES[tb], len(jobs), adj_full)
        jobs.append(aj)
        fam = ctx.cov.setdefault("adjacency_family", {"tables": [], "deliveries": 0, "by_kind": {}})
        fam["tables"].append(tb)
        fam.update(aj["family"])
        fam["deliveries"] += len(aj["variants"])
        for v in aj["variants"]:
            fam["by_kind"][v["fam"]] = fam["by_kind"].get(v["fam"], 0) + 1
    results = BR.run_histories(ctx, jobs, tag=name)
    t3 = time.time()
    findings = BR.validate_all(ctx, results)
    add_counters(ctx, results)
    t4 = time.time()
    report_stream_findings(ctx, findings, jobs, results, table)
    runs = sum(x["runs"] for x in results)
    steps = sum(x["steps"] for x in results)
    ctx.cov["evaluations"] += steps + stdsteps
    ctx.cov["traces_validated_against_impl"] += runs + len(jobs) + len(std)
    st = ctx.cov.setdefault("stream", {"histories": 0, "deliveries": 0, "steps": 0, "modes": {}, "junk_lines": 0,
                                       "model_junk_steps_line_at_a_time": 0})
    st["histories"] += len(jobs)
    st["deliveries"] += runs
    st["steps"] += steps
    st["model_junk_steps_line_at_a_time"] += junk_steps
    for j in jobs:
        st["junk_lines"] += sum(1 for it in j["items"] if it["junk"])
        for v in j["variants"]:
            m = v["mode"] + ("+eof" if v.get("trunc") is not None else "") + ("+glue" if v.get("glue") else "")
            st["modes"][m] = st["modes"].get(m, 0) + 1
    ub = sorted({u for x in results for u in x["ubsan"]} | {u for x in res for u in x["ubsan"]})
    if ub:
        ctx.note("UBSan (recorded, not an alarm): " + "; ".join(ub[:5]))
    if jobs:
        j = jobs[0]
        ctx.sample({"history": " | ".join(item_short(it) for it in j["items"])[:600], "deliveries": len(j["variants"])})
    ctx.note("histories %s/%s: model %d states %d transitions (%.0fs); line-at-a-time with junk: %d histories, %d steps "
             "(%.0fs); streams: %d histories x deliveries = %d runs, %d steps (%.0fs), judged by TLC (%.0fs); %d findings"
             % (name, table, r.distinct, r.generated, t1 - t0, len(std), stdsteps, t2 - t1, len(jobs), runs, steps,
                t3 - t2, t4 - t3, len(findings) + len(fstd)))
    return jobs


# ---- (b) byte level ----------------------------------------------------------------------------------------------
ALPHA = [0x35, 0x2d, 0x31, 0x20, 0x3a, 0x0a, 0x0d, 0x00, 0x55, 0x4e, 0x7a, 0xe9]     # 5 - 1 SP : LF CR NUL U N z 0xE9
ANN = "5 C 1.2.3.4 1000 10.9.8.7 6667\n"
# contexts whose effect the specification predicts (pred = 1): (name, setup lines, prefix of the subject)
CTX_PRED = [("bare", [], ""), ("live", [ANN], ""), ("U", [ANN], "5 U "), ("Ux", [ANN], "5 U x "), ("N", [ANN], "5 N "),
            ("n", [ANN], "5 n "), ("u", [ANN], "5 u "), ("unkid", [ANN], "15 N "), ("unkcmd", [ANN], "5 Z "), ("m1", [ANN], "-1 U ")]
# contexts explored for crash / derailment only
CTX_FREE = [("P", [ANN], "5 P :", False), ("X", [ANN, "5 H Others\n"], "-1 X a1.svc 5_1 :", True), ("C", [], "5 C ", False),
            ("info", [], "-1 ? ", False), ("E", [ANN], "5 E ", False), ("M", [], "-1 M ", False)]

VALID = [([], "5 C 1.2.3.4 1000 10.9.8.7 6667"), ([ANN], "5 C 1.2.3.4 1000 10.9.8.7 6667"),
         ([ANN], "5 N host.example.net"), ([ANN], "5 d"), ([ANN], "5 u ident"), ([ANN], "5 u"), ([ANN], "5 n nick"),
         ([ANN], "5 U user :Real Name"), ([ANN], "5 P :+x! acct pass"), ([ANN], "5 H Others"), ([ANN], "5 T"), ([ANN], "5 D"),
         ([ANN], "5 E type :some text"), ([], "-1 M some.server 100"), ([], "-1 ? config"), ([ANN], "5 ! timeout"),
         ([ANN, "5 H Others\n"], "-1 X a1.svc 5_1 :OK acct"), ([ANN, "5 H Others\n"], "-1 X a1.svc 5_1 :NO go away"),
         ([ANN, "5 H Others\n"], "-1 X a1.svc 5_1 :MORE text"), ([ANN, "5 H Others\n"], "-1 x a1.svc 5_1 :Server not online"),
         ([ANN, "5 P :+! acct pass\n"], "-1 X a1.svc 5_1 :AGAIN try again")]
MUT_BYTES = ["\x00", " ", ":", "\r", "\n", "\x80", "\xff", "0", "-", "\t", "_"]
LENGTHS = [510, 511, 512, 513, 1022, 1023, 1024, 1025, 1026, 2048, 4095, 4096, 4097, 8191, 8192, 8193, 70000]


def enum_strings(maxlen):
    cur = [""]
    yield ""
    for _ in range(maxlen):
        cur = [s + chr(a) for s in cur for a in ALPHA]
        for s in cur:
            yield s


def enumerated_cases(maxlen, maxlen_free):
    cases = []
    for (name, setup, pre) in CTX_PRED:
        for s in enum_strings(maxlen):
            cases.append({"ctx": name, "setup": setup, "subj": pre + s + "\n", "pred": 1})
    for (name, setup, pre, tagsub) in CTX_FREE:
        for s in enum_strings(maxlen_free):
            cases.append({"ctx": name, "setup": setup, "subj": pre + s + "\n", "pred": 0, "tagsub": tagsub})
    return cases


def mutation_cases(rng, limit=None):
    cases = []
    for (setup, line) in VALID:
        tagsub = "5_1" in line
        muts = []
        for i in range(len(line)):
            muts.append(line[:i] + line[i + 1:])                       # delete
            muts.append(line[:i])                                      # cut off here
            for b in MUT_BYTES:
                muts.append(line[:i] + b + line[i + 1:])               # replace
                muts.append(line[:i] + b + line[i:])                   # insert
        words = line.split(" ")
        for k in range(len(words)):
            muts.append(" ".join(words[:k] + words[k + 1:]))           # drop a parameter
            muts.append(" ".join(words[:k] + [""] + words[k:]))        # double space
        head = line.split(" :")[0]
        for extra in (10, 13, 14, 15, 16, 17, 30):                      # many arguments (before / instead of the trailing one)
            muts.append(head + "".join(" a%d" % j for j in range(extra)))
            muts.append(head + "".join(" a%d" % j for j in range(extra)) + " :t r")
        for n in LENGTHS:                                               # long lines: one long word, many words
            if n > len(line) + 2:
                muts.append(line + "y" * (n - len(line)))
                muts.append(line + " " + "y" * (n - len(line) - 1))
                muts.append(head + (" :" if " :" not in line else " ") + "ab " * ((n - len(head)) // 3))
        for m in muts:
            cases.append({"ctx": "mut", "setup": setup, "subj": m + "\n", "pred": 0, "tagsub": tagsub, "base": line})
        # the valid line itself, CR LF terminated, and twice
        cases.append({"ctx": "mut", "setup": setup, "subj": line + "\r\n", "pred": 0, "tagsub": tagsub, "base": line})
        cases.append({"ctx": "mut", "setup": setup, "subj": line + "\n" + line + "\n", "pred": 0, "tagsub": tagsub, "base": line})
    seen = set()
    uniq = []
    for c in cases:
        k = (tuple(c["setup"]), c["subj"])
        if k not in seen:
            seen.add(k)
            uniq.append(c)
    if limit and len(uniq) > limit:
        long_ones = [c for c in uniq if len(c["subj"]) > 300]
        rest = [c for c in uniq if len(c["subj"]) <= 300]
        keep_long = rng.sample(long_ones, min(len(long_ones), max(60, limit // 12)))
        uniq = rng.sample(rest, limit - len(keep_long)) + keep_long
    return uniq


def subj_short(c):
    s = c["subj"]
    return "%s:%r" % (c["ctx"], s if len(s) <= 60 else s[:40] + "...(%d bytes)" % len(s))


def byte_level(ctx, cases, tag, with_class=False):
    """with_class: iauth_class loaded with rules on account / hostname / username / xreply_ok / address (the verdict lines then
    carry a class and the trust_username path runs); predictions are switched off (the class changes the probe lines)."""
    for n, c in enumerate(cases):
        c["cid"] = n
        if with_class:
            c["pred"] = 0
    ctx.rng.shuffle(cases)
    cases.sort(key=lambda c: len(c["subj"]) > 300)       # long lines last (they are slow and need no tokenizing by TLC)
    t0 = time.time()
    results = BR.run_cases(ctx, cases, tag=tag, with_class=with_class)
    t1 = time.time()
    findings = BR.validate_all(ctx, results)
    add_counters(ctx, results)
    t2 = time.time()
    by_cid = {c["cid"]: c for c in cases}
    seen = set()
    ndrift = 0
    for f in findings:
        cid = f["key"][0]
        rec = BR.trace_line(f["trace"], f["l"])
        if f["kind"] == "D":
            ndrift += 1
            if ndrift <= 8:
                c = by_cid.get(cid)
                ctx.drift("byte-level case %s: tokenizer / dispatch spec predicts other output" % (subj_short(c) if c else "?"),
                          {"observed_subject_step": rec.get("os"), "observed_probe": rec.get("a1"), "predicted": f.get("want")})
            continue
        conj = "+".join(f["v"])
        if cid == -1 or cid not in by_cid:
            # unclean end of a batch: the worker has re-run its cases one by one, those records carry the verdict
            continue
        c = by_cid[cid]
        sig = "%s: %s" % (conj, subj_short(c))
        key = (conj, c["ctx"], c.get("base"))
        if key in seen or len(seen) >= 8:
            continue
        seen.add(key)
        one = dict(c, fresh=True)
        res2 = BR.run_cases(ctx, [one], nproc=1, tag="%s-again%d" % (tag, len(seen)), with_class=with_class)
        f2 = [g for g in BR.validate_all(ctx, res2, nthreads=1) if g["kind"] == "V" and set(g["v"]) & set(f["v"])]
        if not f2:
            ctx.note("violation of %s did not repeat on a fresh daemon: %s (not reported)" % (conj, sig))
            continue
        rec2 = BR.trace_line(f2[0]["trace"], f2[0]["l"])
        ctx.violation("byte-level case: after setup %r the subject %r: conjunct(s) %s fail; observed %s"
                      % (c["setup"], c["subj"] if len(c["subj"]) < 200 else c["subj"][:80] + "...(%d bytes)" % len(c["subj"]), conj,
                         json.dumps({k: rec2.get(k) for k in ("done", "exit", "san", "pac", "rac", "pbc", "rbc")})[:900]),
                      conj, sig, {"kind": "case", "with_class": with_class, "case": {k: c[k] for k in c if k != "cid"}})
    ncases = sum(x["cases"] for x in results)
    steps = sum(x["steps"] for x in results)
    for c in cases[:2]:
        ctx.sample({"byte_level_case": subj_short(c), "setup": c["setup"]}, limit=8)
    ctx.cov["evaluations"] += steps
    ctx.cov["traces_validated_against_impl"] += ncases
    bl = ctx.cov.setdefault("byte_level", {"cases": 0, "steps": 0, "processes": 0, "by_context": {}, "predicted_cases": 0})
    bl["cases"] += ncases
    bl["steps"] += steps
    bl["processes"] += sum(x["procs"] for x in results)
    for c in cases:
        bl["by_context"][c["ctx"]] = bl["by_context"].get(c["ctx"], 0) + 1
        bl["predicted_cases"] += c.get("pred", 0)
    ub = sorted({u for x in results for u in x["ubsan"]})
    if ub:
        ctx.note("UBSan (recorded, not an alarm): " + "; ".join(ub[:5]))
    ctx.note("byte level %s: %d cases (%d with predictions), %d steps on %d processes (%.0fs), judged by TLC (%.0fs); %d findings (%d drift)"
             % (tag, ncases, sum(c.get("pred", 0) for c in cases), steps, sum(x["procs"] for x in results), t1 - t0, t2 - t1,
                len(findings), ndrift))
    return ncases



def barrage_job(ctx, svcs, rid):
    """Every junk form after every event of a canonical two-client history (so every form meets every stage of a
    client's life: announced, data partly in, query outstanding, challenged, decided)."""
    ev = [{"e": "C", "id": 5, "addr": "A5", "port": 1005}, {"e": "N", "id": 5, "host": ["h1", 12]},
          {"e": "u", "id": 5, "ident": ["i1", 4]}, {"e": "n", "id": 5, "nick": ["n1", 5]},
          {"e": "U", "id": 5, "user": ["c1", 6], "tilde": 0, "real": ["r1", 11]},
          {"e": "P", "id": 5, "shape": "ok", "modes": ["+", "!"], "cred": ["p1", 10], "raw": ["P+!p1", 0]},
          {"e": "X", "svc": svcs[0]["name"], "tag": "5_1", "kind": "MORE", "acct": ["ac1", 8], "text": ["t1", 9], "trail": ""},
          {"e": "P", "id": 5, "shape": "ok", "modes": ["+", "x"], "cred": ["p1", 10], "raw": ["P+xp1", 0]},
          {"e": "C", "id": 6, "addr": "A6", "port": 1006}, {"e": "H", "id": 6},
          {"e": "X", "svc": svcs[0]["name"], "tag": "5_1", "kind": "OKA", "acct": ["ac1", 8], "text": ["t1", 9], "trail": ""},
          {"e": "X", "svc": svcs[0]["name"], "tag": "6_2", "kind": "NO", "acct": ["ac1", 8], "text": ["t1", 9], "trail": ""},
          {"e": "C", "id": 5, "addr": "A5", "port": 1005}, {"e": "H", "id": 5}, {"e": "TO", "id": 5}]
    items = []
    serial, cur, last = 0, {}, 5
    for e in ev:
        if e["e"] == "C":
            serial += 1
            cur[e["id"]] = serial
        if "id" in e:
            last = e["id"]
        items.append({"ev": e, "raw": None, "junk": False, "crlf": ctx.rng.random() < 0.5})
        for f in junk_forms(last, "%x_%x" % (last, cur[last]), ctx.rng):
            if len(f) < 2000:
                items.append({"ev": None, "raw": f, "junk": True, "crlf": ("\r" not in f) and ctx.rng.random() < 0.5})
    for e in R._cleanup_events(ev):
        items.append({"ev": e, "raw": None, "junk": False, "crlf": False})
    lines = BR.render_items(Renderer(), items)
    lay, total = BR.layout(lines)
    var = [{"mode": "lines"}, {"mode": "whole"}, {"mode": "bytes"},
           {"mode": "split", "cuts": [b - 1 for (a, b, c) in lay] + [c - 1 for (a, b, c) in lay]}]
    for k in (2, 7, 40, 300):
        var.append({"mode": "split", "cuts": sorted(ctx.rng.sample(range(1, total), k))})
    for _ in range(8):
        var.append({"mode": "whole", "trunc": ctx.rng.randrange(total)})
    var += prompt_variants(ctx, items, 5, kmax=4)
    return {"rid": rid, "svcs": svcs, "items": items, "variants": var}



def adjacency_job(ctx, svcs, rid, full):
    """Adjacency family: every junk form x every line kind sent with its MINIMUM number of parameters.

    The history sends, for live clients, every command once with exactly the parameters it needs and no more (bare
    `u`; N / n / P / u with one; U with two; C, X, E, M, `?`, `!`), and the same commands with a parameter missing
    (bare N / n / P, U without real name, short E / M / X / `?`: junk lines, expected to be stutters).  A delivery
    glues ONE junk form in front of ONE of these lines (no barrier line in between) and sends the stream in one write,
    one write per line group (junk and line in the same chunk) or - for comparison - strictly line by line (junk
    and line in different chunks); quick tier: every form in front of ALL lines at once, and the isolated
    (form, line) pairs for the forms that carry parameters for an unknown id; thorough tier: all pairs.
    Prompt deliveries (chunk of k * 4096 bytes, input kept open) end at every line of the history."""
    rng = ctx.rng
    s0 = svcs[0]["name"]

    def raw(text):
        return {"ev": None, "raw": text, "junk": True, "crlf": False}
    seq = [{"e": "C", "id": 5, "addr": "A5", "port": 1005}, raw("5 N"), raw("5 n"), raw("5 P"), raw("5 U name"),
           {"e": "u0", "id": 5}, raw("5 E type"), raw("-1 M some.server"), raw("-1 X %s 5_1" % s0), raw("-1 ?"),
           {"e": "N", "id": 5, "host": ["h1", 12]}, {"e": "n", "id": 5, "nick": ["n1", 5]},
           {"e": "U", "id": 5, "user": ["c1", 6], "tilde": 0, "real": ["r1", 11]},
           raw("5 N"), raw("5 n"), raw("5 P"), {"e": "u0", "id": 5},
           {"e": "P", "id": 5, "shape": "ok", "modes": ["+", "x"], "cred": ["p1", 10], "raw": ["P+xp1", 0]},
           {"e": "C", "id": 6, "addr": "A6", "port": 1006}, {"e": "d", "id": 6}, {"e": "u", "id": 6, "ident": ["i1", 4]},
           {"e": "u0", "id": 6}, {"e": "H", "id": 6}, raw("6 E type :info text"), raw("-1 M some.server 100"), {"e": "QC"}]
    seq += [{"e": "X", "svc": s["name"], "tag": "6_2", "kind": "OK", "acct": ["ac1", 8], "text": ["t1", 9], "trail": ""} for s in svcs]
    seq += [{"e": "H", "id": 5}]
    seq += [{"e": "X", "svc": s["name"], "tag": "5_1", "kind": "OKA", "acct": ["ac1", 8], "text": ["t1", 9], "trail": ""} for s in svcs]
    seq += [{"e": "TO", "id": 5}, {"e": "TO", "id": 6}, {"e": "C", "id": 7, "addr": "A7", "port": 1007}, {"e": "u0", "id": 7},
            {"e": "T", "id": 7}, {"e": "D", "id": 5}, {"e": "D", "id": 6}, {"e": "D", "id": 7}]
    items = [x if "ev" in x else {"ev": x, "raw": None, "junk": False, "crlf": False} for x in seq]
    jc = junk_context(items)
    targets = list(range(len(items)))

    def fixed_forms(i, tag):
        return junk_forms(i, tag, rng)[:-2]              # (the last two have a random length)

    def form(k, fi):
        f = fixed_forms(jc[k][0], jc[k][1])[fi]
        return [k, f, ("\r" not in f) and rng.random() < 0.25]
    # forms that carry parameters for an unknown client id (what a late line for a departed client looks like)
    ref_forms = fixed_forms(5, "5_1")
    nforms = len(ref_forms)
    with_args = [fi for fi, f in enumerate(ref_forms)
                 if f[:1] != " " and f.split()[:1] and f.split()[0].lstrip("-").isdigit() and int(f.split()[0]) not in (-1, 5)
                 and len(f.split()) >= 3]
    # lines whose handler reads a parameter slot without (or beyond) what argc vouches for: bare u and the lines with a
    # parameter missing
    def is_short(it):
        return (it["ev"] or {}).get("e") == "u0" or (it["raw"] is not None and len(it["raw"].split()) <= 3 and ":" not in it["raw"])
    short = [k for k in targets if is_short(items[k])]
    var = []
    for fi in range(nforms):
        for mode in ("whole", "lines", "sep") + (("bytes",) if full else ()):
            var.append({"mode": mode, "glue": [form(k, fi) for k in targets], "fam": "adj-all"})
    for fi in (range(nforms) if full else with_args):
        for k in (targets if full else short):
            g = [form(k, fi)]
            var.append({"mode": "lines", "glue": g, "fam": "adj"})
            if full:
                var.append({"mode": "whole", "glue": g, "fam": "adj"})
                var.append({"mode": "sep", "glue": g, "fam": "adj"})
    # two different forms in a row in front of a line
    for _ in range(400 if full else 40):
        k = rng.choice(targets)
        var.append({"mode": rng.choice(["whole", "lines"]), "fam": "adj2",
                    "glue": [form(k, rng.choice(with_args)), form(k, rng.randrange(nforms))][::rng.choice([1, -1])]})
    # prompt deliveries ending at every line, chunk from up to 3 lines before; k = 1 .. 4 (thorough: .. 16), every padding style
    for p_ in targets:
        for n, kk in enumerate([1 + p_ % 4] if not full else [1, 2, 3, 4, 8, 16]):
            q_ = max(0, p_ - (p_ + n) % 4)
            var.append({"mode": "prompt", "q": q_, "p": p_, "k": kk, "fam": "adj-prompt",
                        "style": PAD_STYLES[(p_ + n) % len(PAD_STYLES)], "uid": 1000 + jc[q_][0]})
    return {"rid": rid, "svcs": svcs, "items": items, "variants": var,
            "family": {"forms": nforms, "forms_with_args_for_unknown_id": len(with_args), "lines": len(targets),
                       "lines_reading_an_absent_parameter": len(short)}}


def add_counters(ctx, results):
    tot = ctx.cov.setdefault("oracle_counters", {})
    for r in results:
        for k, v in r.get("counters", {}).items():
            tot[k] = tot.get(k, 0) + v


MC_CONFIGS = {
    # name: (cfg file, workers, what)
    "q": ("MCReadLine_q.cfg", 6, "alphabet {5 SP : LF CR NUL N}, streams <= 5 bytes, ARGV = 2"),
    "w": ("MCReadLine_w.cfg", 6, "alphabet {a SP : LF}, streams <= 7 bytes, ARGV = 2 (argv[] overflow reachable)"),
    "t1": ("MCReadLine_t1.cfg", 8, "alphabet {5 SP : LF CR NUL N}, streams <= 6 bytes, ARGV = 2"),
    "t2": ("MCReadLine_t2.cfg", 8, "alphabet {5 SP : LF CR NUL N - 1 TAB}, streams <= 5 bytes, ARGV = 2"),
    "t3": ("MCReadLine_t3.cfg", 8, "alphabet {a SP : LF}, streams <= 8 bytes, ARGV = 3"),
    "t4": ("MCReadLine_t4.cfg", 8, "alphabet {5 SP : LF CR NUL N}, streams <= 7 bytes, ARGV = 2"),
    "a": ("MCReadLine_a.cfg", 4, "alphabet {5 N SP LF}, LF-terminated streams <= 7 bytes, ARGV = 2, only id 0 live (unknown-id path with parameters reachable)"),
    "c2": ("MCReadLine_c2.cfg", 2, "alphabet {5 SP : LF CR NUL N}, streams <= 4 bytes, reads of at most 2 bytes (full reads followed by more)"),
    "a8": ("MCReadLine_a8.cfg", 8, "alphabet {5 N SP LF}, LF-terminated streams <= 8 bytes, ARGV = 2, only id 0 live"),
    "c3": ("MCReadLine_c3.cfg", 8, "alphabet {5 SP : LF CR NUL N}, streams <= 6 bytes, reads of at most 3 bytes"),
}
# model mutants that must be refuted (anti-vacuity of the two invariants the glue / prompt deliveries bind to the code)
MC_MUTANTS = [("MCReadLine_bug_drainfull.cfg", "NoLineWaiting",
               "Bug drainfull: a read that fills the buffer is followed by another read() before anything is parsed"),
              ("MCReadLine_bug_argvstale.cfg", "AbsentParamIsNull",
               "Bug argvstale: argv[] zeroed once, no argv[argc] = NULL store, slots reset only at the bottom of the loop")]


def model_check_input_layer(ctx, names):
    """Exhaustive TLC runs of ReadLine (B refines A: every stream, every chunking, every point of peer death)."""
    out = []
    for n in names:
        cfg, workers, what = MC_CONFIGS[n]
        r = ctx.tlc("MCReadLine", cfg, workers=workers, timeout=1500, heap="8g")
        if not r.ok:
            raise MachineryError("ReadLine model %s violates %s on the unchanged specification:\n%s"
                                 % (cfg, r.violated, r.violation_text[:3000]))
        out.append((n, what, r))
    return out


def refute_model_mutants(ctx):
    out = []
    for cfg, inv, what in MC_MUTANTS:
        r = ctx.tlc("MCReadLine", cfg, workers=2, timeout=600, heap="3g")
        if r.violated != inv:
            raise MachineryError("model mutant %s: expected TLC to refute %s, got %r: the invariant is vacuous" % (cfg, inv, r.violated))
        out.append((cfg, inv, what, r))
    return out


def run(ctx):
    ctx.cov["rule"] = (
        "model: every byte stream over the stated alphabets up to the stated length, every segmentation into read() chunks, end "
        "of input after every byte (TLC, exhaustive): the evbuffer/readln/strtol/tokenizer-loop machine delivers exactly the "
        "contract's lines (a function of the bytes read), keeps exactly the unterminated tail buffered, stores only inside argv[]. "
        "conformance (real ASan/UBSan daemon, judged by TLC/ReadLineTrace): (a) behaviours of the daemon model with junk lines "
        "enabled in every state, plus raw junk lines (blank, id only, unknown id / command, malformed replies with the live "
        "routing tag, NUL and 8-bit bytes, 14-21 arguments, lines of 511..9000 and 70000 bytes) spliced in, rendered to one byte "
        "stream with LF / CR LF terminators, delivered line-at-a-time, in one write, in every 2-chunk split (2 histories) and "
        "sampled 2-/k-chunk splits incl. before/after every LF, between CR and LF, inside ids and routing tags, byte by byte, and "
        "ended at every byte (2 histories) / sampled bytes; each delivery on a fresh process is compared step by step with the "
        "clean line-at-a-time run of the history without junk; glue deliveries: junk lines written directly in front of a line with no "
        "barrier line in between (same read() chunk, same call of iauth_read()): random ones on every model history, and the "
        "adjacency family = a history that sends every command with exactly its minimum number of parameters (bare u; N n P u "
        "with one; U; C; X; E; M; ?; !) and with a parameter missing, x every junk form (in front of all lines at once; isolated "
        "(form, line) pairs for the forms carrying parameters for an unknown id, thorough: all pairs), in one write / one write "
        "per line group / strictly line by line; prompt deliveries: a chunk of exactly k * 4096 bytes (k = 1..4, thorough ..16; "
        "padded with unknown-id lines, over-long lines, empty lines) ending in a barrier line, input kept open, nothing more "
        "written until the barrier is answered (time-out 5 s) - ReadLine!NoLineWaiting on the real daemon; (b) byte level: every string up to length 3 (thorough 4) over "
        "{5 - 1 SP : LF CR NUL U N z 0xE9} as a line on its own, to a live client, and behind 8 line prefixes, mutations of 21 "
        "valid lines (delete / cut / replace / insert incl. NUL, CR, LF, 0x80, 0xff; drop parameter; 10-30 arguments; lengths "
        "510..8193 and 70000), each followed by probes (the addressed client is driven to its verdict, then a fresh client runs "
        "a complete registration) compared with a fresh daemon's. distinct_nontrivial = distinct byte streams x deliveries + "
        "distinct byte-level subjects")
    ctx.assumptions += [
        "promptness is observed with a time-out (5 s for an answer the unchanged daemon gives within milliseconds; a late answer "
        "is reported only if it is late again on a fresh process)",
        "a junk line glued in front of a well-formed line may print oper notices of its own: for such a step the outputs are compared "
        "without oper notices",
        "read() boundaries are controlled by writing a chunk only after the daemon's stdin pipe is empty (FIONREAD); chunks above "
        "4096 bytes are cut further by the daemon's own read size",
        "memory safety, hangs and clean exit are observed on the sanitizer build (ASan/LSan abort = step not completed, "
        "hang = pipe not drained / no exit within the time-out); they are not expressible in TLA+ (DESIGN.md section 10)",
        "an unterminated last line is dropped by the code; the contract also accepts a daemon that treats a last line lacking only "
        "its terminator as that line (once)",
        "CR LF and LF terminated streams are each compared with a clean run of the same bytes (the property does not say CR LF "
        "and LF are treated alike; the implementation-shaped spec does, and is checked against the code at byte level)",
        "the request timeout fires only where the '<id> ! timeout' hook is sent (timeout 1h configured)"]
    quick = ctx.tier == "quick"
    # the exhaustive model runs go on beside the replay
    pool = ThreadPoolExecutor(3)
    futs = [pool.submit(model_check_input_layer, ctx, ["q", "c2"] if quick else ["t4", "c3"]),
            pool.submit(model_check_input_layer, ctx, ["w", "a"] if quick else ["t2", "t3", "a8"])]
    fut_mut = pool.submit(refute_model_mutants, ctx)
    distinct = 0
    if quick:
        jobs = histories(ctx, "hq", "S_t1d", nhist=100, nstd=250, huge=1, barrage=True, adjacency=["S_t1d"],
                         budget={"full_for": 2, "all2": True, "alltrunc": True, "bytes": True, "n2": 5, "special": 8, "nk": 3,
                                 "ntrunc": 5, "strunc": 6, "nglue": 1, "nprompt": 2},
                         max_inst=1, max_pw=1, emit_mod=20)
        jobs += histories(ctx, "hq1", "S_q1", nhist=40, nstd=150,
                          budget={"full_for": 0, "bytes": True, "n2": 4, "special": 6, "nk": 3, "ntrunc": 4, "strunc": 5,
                                  "nglue": 1, "nprompt": 2},
                          max_inst=1, max_pw=1, emit_mod=40)
        # a service table with a hole (an entry whose protocol word is unknown is allocated and freed again)
        jobs += histories(ctx, "hqu", "S_unk", nhist=25, nstd=120,
                          budget={"full_for": 0, "bytes": True, "n2": 3, "special": 4, "nk": 2, "ntrunc": 3, "strunc": 3,
                                  "nglue": 1, "nprompt": 1},
                          max_inst=1, max_pw=1, emit_mod=150)
        ncases = byte_level(ctx, enumerated_cases(3, 2), "enum")
        ncases += byte_level(ctx, mutation_cases(ctx.rng, 4000), "mut")
        ncases += byte_level(ctx, mutation_cases(ctx.rng, 1200), "mutc", with_class=True)
    else:
        jobs = histories(ctx, "ht", "S_t1d", nhist=450, nstd=3000, huge=3, barrage=True, adjacency=["S_t1d", "S_t1b"], adj_full=True,
                         budget={"huge_bytes": True, "full_for": 11, "all2": True, "alltrunc": True, "bytes": True, "n2": 12, "special": 25, "nk": 8,
                                 "ntrunc": 12, "strunc": 14, "nglue": 4, "nprompt": 6, "kmax": 8},
                         max_inst=2, max_pw=1, emit_mod=8)
        jobs += histories(ctx, "ht1", "S_q1", nhist=220, nstd=2000, huge=1, barrage=True, adjacency=["S_q1"], adj_full=True,
                          budget={"full_for": 4, "all2": True, "alltrunc": True, "bytes": True, "n2": 10, "special": 20, "nk": 6,
                                  "ntrunc": 10, "strunc": 12, "nglue": 4, "nprompt": 6, "kmax": 8},
                          max_inst=1, max_pw=2, emit_mod=30)
        jobs += histories(ctx, "ht2", "S_t1c", nhist=120, nstd=1000,
                          budget={"full_for": 1, "all2": True, "alltrunc": True, "bytes": True, "n2": 10, "special": 20, "nk": 6,
                                  "ntrunc": 10, "strunc": 12, "nglue": 4, "nprompt": 6, "kmax": 8},
                          max_inst=1, max_pw=1, emit_mod=10)
        jobs += histories(ctx, "ht3", "S_unk", nhist=120, nstd=1000,
                          budget={"full_for": 1, "all2": True, "alltrunc": True, "bytes": True, "n2": 10, "special": 20, "nk": 6,
                                  "ntrunc": 10, "strunc": 12, "nglue": 4, "nprompt": 6, "kmax": 8},
                          max_inst=1, max_pw=1, emit_mod=20)
        ncases = byte_level(ctx, enumerated_cases(4, 3), "enum")
        ncases += byte_level(ctx, mutation_cases(ctx.rng, None), "mut")
        ncases += byte_level(ctx, mutation_cases(ctx.rng, None) + enumerated_cases(2, 2), "mutc", with_class=True)
    seen = set()
    for j in jobs:
        key = "\n".join((it["raw"] if it["raw"] is not None else json.dumps(it["ev"], sort_keys=True)) + ("\r" if it["crlf"] else "")
                        for it in j["items"])
        for v in j["variants"]:
            seen.add((key, json.dumps(v, sort_keys=True)))
    ctx.cov["distinct_nontrivial"] = len(seen) + ncases
    for fut in futs:
        for n, what, r in fut.result():
            ctx.model_checked(r)
            ctx.note("input-layer model %s (%s): %d distinct states, %d transitions, %.0fs: B refines A" % (n, what, r.distinct, r.generated, r.wall_s))
    ctx.cov["model_mutants_refuted"] = []
    for cfg, inv, what, r in fut_mut.result():
        ctx.cov["model_mutants_refuted"].append({"cfg": cfg, "invariant": inv, "what": what})
        ctx.note("model mutant %s: TLC refutes %s (%s)" % (cfg, inv, what))
    pool.shutdown()
    ctx.cov["exhaustive"] = False
    # anti-vacuity: every part of the oracle must have been exercised
    oc = ctx.cov.get("oracle_counters", {})
    for k in ("steps", "junksteps", "notices", "cut", "tailalt", "tailjunk", "tailpart", "cases", "junkcases", "predcases", "prednotices", "ends",
              "prompts", "promptk", "glued", "gluedjunk"):
        if not oc.get(k) and not ctx.violations:
            raise MachineryError("vacuous run: oracle counter %s is zero (%r)" % (k, oc))


def replay(ctx, body):
    rp = body["replay"]
    if rp.get("kind") == "stream":
        job = {"rid": 0, "svcs": rp["svcs"], "items": rp["items"], "variants": [rp["variant"]] if rp["variant"].get("mode") != "reference" else []}
        res = BR.run_histories(ctx, [job], nproc=1, tag="replay", stop_after=99)
        f = [g for g in BR.validate_all(ctx, res, nthreads=1) if g["kind"] == "V"]
        for g in f[:1]:
            ctx.violation("stream replay: conjunct(s) %s fail again" % "+".join(g["v"]), body["conjunct"], body["signature"], rp)
        ctx.cov.update(evaluations=sum(x["steps"] for x in res), distinct_nontrivial=2, rule="replay of one recorded stream delivery",
                       samples=[" | ".join(item_short(it) for it in rp["items"])[:400]])
    elif rp.get("kind") == "case":
        c = dict(rp["case"], cid=0, fresh=True)
        res = BR.run_cases(ctx, [c], nproc=1, tag="replay", with_class=rp.get("with_class", False))
        f = [g for g in BR.validate_all(ctx, res, nthreads=1) if g["kind"] == "V"]
        for g in f[:1]:
            ctx.violation("byte-level replay: conjunct(s) %s fail again" % "+".join(g["v"]), body["conjunct"], body["signature"], rp)
        ctx.cov.update(evaluations=sum(x["steps"] for x in res), distinct_nontrivial=2, rule="replay of one recorded byte-level case",
                       samples=[subj_short(c)])
    else:
        R.replay_file(ctx, body, set(), crash_is_own=True)
