\* quick: every listing of <= 3 rules named from {a, B2, b}; each rule has at most one criterion (account glob or
\* ident glob), class present or absent, trust_username on or off; 6 clients
CONSTANTS
  CBug <- Bug_none
  Names <- N_3
  AcctP <- Acct_1
  AddrP <- OnlyNone
  UserP <- User_1
  HostP <- OnlyNone
  OkP <- OnlyNone
  ClassP <- Class_1
  TrustP <- BoolSet
  MaxRules = 3
  MaxCrit = 1
  Svcs <- S_ld
  CAcct <- CAcct_2
  CAddr <- CAddr_1
  CIdent <- CIdent_2
  CHost <- CHost_1
  CUser <- CUser_1
  LoginSt <- Login_2
  DroneSt <- Drone_1
  EmitMod = 0
INIT Init
NEXT Next
ACTION_CONSTRAINT Emit
INVARIANT VecOrder
INVARIANT OrderIndep
INVARIANT VecIsConf
INVARIANT Unique
INVARIANT ImplClass
INVARIANT ImplUline
INVARIANT ImplExact
