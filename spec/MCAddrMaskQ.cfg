CONSTANTS
  FULL = FALSE
  Bug = {}
INIT Init
NEXT Next
INVARIANTS AlgoExact AlgoRange DefsAgree FirstDiffOK
