------------------------------- MODULE MCConf -------------------------------
(* Universes (keys, file values, registration options) for the exhaustive runs of Conf.tla. *)
(* Names {a, b}, depth <= 2 (three levels of keys in q4/t3), the four node kinds.            *)
EXTENDS Conf

K(p, kind) == <<p, kind>>
Plain(d) == [d |-> <<d>>, s |-> "plain"]
Typed(sub, d) == [d |-> <<d>>, s |-> sub]
Pair(h, p) == [d |-> <<h, p>>, s |-> ""]
List(l) == [d |-> l, s |-> ""]
Obj == [d |-> <<>>, s |-> ""]
ObjVal == {<<>>}

MCNameOrd == [a |-> 1, b |-> 2]

as == K(<<"a">>, "s")   ai == K(<<"a">>, "i")   al == K(<<"a">>, "l")   ao == K(<<"a">>, "o")
bs == K(<<"b">>, "s")   bi == K(<<"b">>, "i")   bl == K(<<"b">>, "l")   bo == K(<<"b">>, "o")
aas == K(<<"a", "a">>, "s")   aai == K(<<"a", "a">>, "i")   abl == K(<<"a", "b">>, "l")   abo == K(<<"a", "b">>, "o")
abs == K(<<"a", "b">>, "s")   abas == K(<<"a", "b", "a">>, "s")   abbl == K(<<"a", "b", "b">>, "l")
bas == K(<<"b", "a">>, "s")

StrVals == {<<"=x">>, <<"=y">>}
PairVals == {<<"=h", "=p">>, <<"=g", "=p">>}
ListVals == {<<>>, <<"=x">>, <<"=x", "=y">>}
StrRegs == {Plain(NULL), Plain("=x")}
PairRegs == {Pair(NULL, NULL), Pair("=h", NULL)}
ListRegs == {List(<<>>), List(<<"=x">>)}

(* ---- quick tier ------------------------------------------------------------------------------ *)
(* q1a-c: two leaf kinds under one name at the root (set order by name, then type), all options;   *)
(* q1d: the three of them together with few options                                                 *)
U_q1a == {as, ai}
V_q1a == (as :> StrVals) @@ (ai :> PairVals)
R_q1a == (as :> StrRegs) @@ (ai :> PairRegs \cup {Pair(NULL, "=p")})
U_q1b == {as, al}
V_q1b == (as :> StrVals) @@ (al :> ListVals)
R_q1b == (as :> StrRegs) @@ (al :> ListRegs)
U_q1c == {ai, al}
V_q1c == (ai :> PairVals) @@ (al :> ListVals)
R_q1c == (ai :> PairRegs) @@ (al :> ListRegs)
U_q1d == {as, ai, al}
V_q1d == (as :> {<<"=x">>}) @@ (ai :> {<<"=h", "=p">>}) @@ (al :> {<<>>, <<"=x">>})
R_q1d == (as :> {Plain(NULL)}) @@ (ai :> {Pair("=h", NULL)}) @@ (al :> {List(<<"=x">>)})

(* q2: a typed string (text changes that keep the number), next to a plain one *)
U_q2 == {as, bs}
V_q2 == (as :> {<<"=x">>}) @@ (bs :> {<<"=1h">>, <<"=60m">>, <<"=5">>})
R_q2 == (as :> {Plain(NULL)}) @@ (bs :> {Typed("interval", NULL), Typed("interval", "=60m"), Plain(NULL)})

(* q3: an object with a string and a list below it, and a sibling after it *)
U_q3 == {ao, aas, abl, bs}
V_q3 == (ao :> ObjVal) @@ (aas :> StrVals) @@ (abl :> {<<>>, <<"=x">>}) @@ (bs :> {<<"=x">>})
R_q3 == (ao :> {Obj}) @@ (aas :> StrRegs) @@ (abl :> ListRegs) @@ (bs :> {Plain(NULL)})

(* q4: nested objects, depth 2, and a second top-level object *)
U_q4 == {ao, abo, abas, aas, bo}
V_q4 == (ao :> ObjVal) @@ (abo :> ObjVal) @@ (abas :> StrVals) @@ (aas :> {<<"=x">>}) @@ (bo :> ObjVal)
R_q4 == (ao :> {Obj}) @@ (abo :> {Obj}) @@ (abas :> StrRegs) @@ (aas :> {Plain("=y")}) @@ (bo :> {Obj})

(* ---- thorough tier (in addition) --------------------------------------------------------------- *)
(* t0: the three leaf kinds under one name, all options *)
U_t0 == {as, ai, al}
V_t0 == (as :> StrVals) @@ (ai :> PairVals) @@ (al :> ListVals)
R_t0 == (as :> StrRegs) @@ (ai :> PairRegs) @@ (al :> ListRegs)

(* t1: leaf kinds under both names at the root, one of them typed *)
U_t1 == {as, ai, bl, bs}
V_t1 == (as :> StrVals) @@ (ai :> {<<"=h", "=p">>}) @@ (bl :> {<<>>, <<"=y">>}) @@ (bs :> {<<"=1h">>, <<"=60m">>})
R_t1 == (as :> StrRegs) @@ (ai :> {Pair("=h", "=p")}) @@ (bl :> {List(<<"=x">>)})
        @@ (bs :> {Typed("interval", "=60m")})

(* t2: an object holding every leaf kind, and a string with the object's name next to it *)
U_t2 == {ao, as, aas, aai, abl}
V_t2 == (ao :> ObjVal) @@ (as :> {<<"=x">>}) @@ (aas :> StrVals) @@ (aai :> {<<"=h", "=p">>}) @@ (abl :> ListVals)
R_t2 == (ao :> {Obj}) @@ (as :> {Plain(NULL)}) @@ (aas :> StrRegs) @@ (aai :> {Pair(NULL, "=p")}) @@ (abl :> ListRegs)

(* t3: depth 2 with leaves on every level and two top-level objects *)
U_t3 == {ao, abo, abas, abbl, aas, bo}
V_t3 == (ao :> ObjVal) @@ (abo :> ObjVal) @@ (abas :> StrVals) @@ (abbl :> {<<"=x">>}) @@ (aas :> StrVals) @@ (bo :> ObjVal)
R_t3 == (ao :> {Obj}) @@ (abo :> {Obj}) @@ (abas :> StrRegs) @@ (abbl :> {List(<<>>)}) @@ (aas :> StrRegs) @@ (bo :> {Obj})

(* the type-mismatch branch of conf_replace_value cannot be reached from conf_read: stated by     *)
(* construction (source and target are paired by Cmp = 0, which includes the kind)                *)
=============================================================================
