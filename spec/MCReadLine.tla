----------------------------- MODULE MCReadLine -----------------------------
(***************************************************************************)
(* Model-checking harness for ReadLine.tla: every byte stream over a small *)
(* alphabet up to MaxLen bytes, every segmentation into read() chunks of   *)
(* 1..MaxChunk bytes, end of input after every byte.                       *)
(***************************************************************************)
EXTENDS ReadLine

CONSTANTS Alphabet, MaxLen

AllStreams == UNION {[1..n -> Alphabet] : n \in 0..MaxLen}

\* alphabets (cfg files cannot hold sets of integers conveniently)
\*   '5' SP ':' LF CR NUL 'N'            : line structure, CR, NUL, trailing argument
Sigma7 == {53, 32, 58, 10, 13, 0, 78}
\*   + '-' '1' (id -1, signs) and TAB
Sigma10 == Sigma7 \cup {45, 49, 9}
\*   words only: many short words against a small ARGV
Sigma4 == {97, 32, 58, 10}
NoBug == {}
BugArgvLe == {"argvle"}
BugNullStore == {"nullstore"}
BugDropPartial == {"droppartial"}
BugNoStripCR == {"nostripcr"}
BugEmptyBreak == {"emptybreak"}
BugEofTail == {"eoftail"}
BugDrainFull == {"drainfull"}
BugArgvStale == {"argvstale"}
\*   '5' 'N' SP LF: ids 0 (no digits), 5, 55 ...; one-letter words
Sigma4b == {53, 78, 32, 10}
\* clients that have a request: id 0 (a line without a number) and 5 / only 0 (so that "5..." is an unknown id)
\* streams that end with a line terminator (an unterminated tail adds nothing to what argv[] goes through)
LFStreams == {s \in AllStreams : s = <<>> \/ s[Len(s)] = 10}
Live05 == {0, 5}
Live0 == {0}
=============================================================================
