----------------------------- MODULE MCKeyOrder -----------------------------
(* Model-only check of KeyOrder.tla: TLC evaluates the ASSUMEs before it explores the (trivial) behaviour. *)
EXTENDS KeyOrder
VARIABLE x
ASSUME Trichotomy
ASSUME Transitive
ASSUME EqualIsCaseOnly
ASSUME Landmarks
Init == x = 0
Next == x' = x
Spec == Init /\ [][Next]_x
=============================================================================
