---------------------------- MODULE ModLoadTrace ----------------------------
(***************************************************************************)
(* C20 -- the oracle: validates what the REAL daemon did against the       *)
(* contract (A) of ModLoadContract.tla.                                    *)
(*                                                                         *)
(* IOEnv.TRACE is an ndjson file with one line per start of the real       *)
(* iauthd-c (one process per line):                                        *)
(*                                                                         *)
(*   {"n":4, "deps":[[2,3],[4],[4],[]], "list":[1], "missing":[],          *)
(*    "nopost":[2,4], "nodtor":[3], "noctor":[4],                          *)
(*    "log":[["ctor-begin",1],["ctor-begin",2],...,["running",0],          *)
(*           ["dtor",1],...], "events":17, "status":0}                     *)
(*                                                                         *)
(* n / deps / list / missing are the case that was rendered into the stub  *)
(* modules' dependency file, the library directory and the `modules` list  *)
(* of the configuration; nopost / nodtor / noctor are the hook profile:    *)
(* the modules whose shared object was the stub variant built without      *)
(* module_post_init / without module_destructor / without                  *)
(* module_constructor; "log" is the event log the stub modules wrote, in   *)
(* order (Python only splits each line into kind and module number);       *)
(* "events" is the number of lines of that log file (guards the transport);*)
(* "status" is the exit status of the process (negative: killed by that    *)
(* signal).  ["running",0] is written from inside main()'s event loop.     *)
(*                                                                         *)
(* One TLC state per line: l is the line under judgement.  Each conjunct   *)
(* of the contract is its own INVARIANT, so TLC's message names the        *)
(* conjunct and the state gives the line.  A line that is not well-formed  *)
(* is not consumed: TLC reports deadlock (run with deadlock checking on).  *)
(* IOEnv.START (optional) is the first line to judge.                      *)
(***************************************************************************)
EXTENDS ModLoadContract, TLC, Json, IOUtils

TraceLog == ndJsonDeserialize(IOEnv.TRACE)

VARIABLE l

StartLine == IF "START" \in DOMAIN IOEnv
             THEN CHOOSE i \in 1..(Len(TraceLog) + 1) : ToString(i) = IOEnv.START
             ELSE 1

CaseOf(r) == [n |-> r.n, deps |-> r.deps, anti |-> (IF "anti" \in DOMAIN r THEN r.anti ELSE [m \in 1..r.n |-> <<>>]),
              list |-> r.list, missing |-> Range(r.missing),
              nopost |-> Range(r.nopost), nodtor |-> Range(r.nodtor), noctor |-> Range(r.noctor)]
LogOf(r)  == [i \in 1..Len(r.log) |-> Ev(r.log[i][1], r.log[i][2])]

LineOK(r) ==
    /\ {"n", "deps", "list", "missing", "nopost", "nodtor", "noctor", "log", "events", "status"} \subseteq DOMAIN r
    /\ r.events = Len(r.log)
    /\ \A i \in 1..Len(r.log) : Len(r.log[i]) = 2
    /\ WellFormed(CaseOf(r), LogOf(r), r.status)

Init == l = StartLine

Judge == /\ l <= Len(TraceLog)
         /\ LineOK(TraceLog[l])
         /\ l' = l + 1

Done == l = Len(TraceLog) + 1 /\ UNCHANGED l

Next == Judge \/ Done
TraceSpec == Init /\ [][Next]_l

On(name) == l <= Len(TraceLog) /\ LineOK(TraceLog[l])
               => Holds(name, CaseOf(TraceLog[l]), LogOf(TraceLog[l]), TraceLog[l].status)

A_CtorOnce_             == On("A_CtorOnce")
A_DepsConstructedFirst_ == On("A_DepsConstructedFirst")
A_PostInitOnce_         == On("A_PostInitOnce")
A_PostInitAfterDeps_    == On("A_PostInitAfterDeps")
A_DtorBeforeDeps_       == On("A_DtorBeforeDeps")
A_StartsComplete_       == On("A_StartsComplete")
A_StopsClean_           == On("A_StopsClean")
A_AbortsWithError_      == On("A_AbortsWithError")
A_NeverRunsPartial_     == On("A_NeverRunsPartial")

\* every line was judged (acceptance made visible)
AllJudged == TLCGet("stats").diameter = Len(TraceLog) + 2 - StartLine
=============================================================================
