#!/usr/bin/env python3
"""Re-run our checks against already confirmed seeded defects and update their meta.json.
usage: bin/seed_recheck.py <seed name | all | missed> [<Cxx>[,<Cyy>]] [--tier quick]"""
import glob
import json
import os
import subprocess
import sys
import time

VERIF = os.path.dirname(os.path.dirname(os.path.abspath(__file__)))


def main():
    which = sys.argv[1]
    props = None
    tier = "quick"
    args = sys.argv[2:]
    if "--tier" in args:
        tier = args[args.index("--tier") + 1]
        args = [a for a in args if a not in ("--tier", tier)]
    if args:
        props = args[0].split(",")
    dirs = sorted(glob.glob(os.path.join(VERIF, "seeded", "*")))
    for d in dirs:
        name = os.path.basename(d)
        mp = os.path.join(d, "meta.json")
        if not os.path.exists(mp):
            continue
        meta = json.load(open(mp))
        oc = meta.setdefault("our_checks", {})
        if which == "missed":
            if not any(v.get("status") != "caught" for v in oc.values()):
                continue
        elif which != "all" and which != name:
            continue
        for prop in (props or sorted(oc) or [meta.get("property")]):
            t = time.time()
            p = subprocess.run([os.path.join(VERIF, "bin", "mutant_test.sh"), os.path.join(d, "patch.diff"), prop, tier],
                               stdout=subprocess.PIPE, stderr=subprocess.STDOUT, text=True)
            viol = [l for l in p.stdout.splitlines() if l.startswith("VIOLATION")]
            sigs = [l.strip() for l in p.stdout.splitlines() if l.strip().startswith("signature:")][:3]
            status = "caught" if p.returncode == 1 and viol else ("missed" if p.returncode == 0 else "error rc=%d" % p.returncode)
            prev = oc.get(prop, {}).get("status")
            oc[prop] = {"tier": tier, "status": status, "violations": len(viol), "signatures": sigs, "wall_s": round(time.time() - t)}
            if prev and prev != status:
                oc[prop]["earlier_status"] = prev
            print("%s %s: %s (%d violations, %.0fs) %s" % (name, prop, status, len(viol), time.time() - t, sigs[:1]), flush=True)
            if status.startswith("error"):
                print(p.stdout[-1200:])
        json.dump(meta, open(mp, "w"), indent=1)


if __name__ == "__main__":
    main()
