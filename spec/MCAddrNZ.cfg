CONSTANTS
  NC = 2
  Bug = {"NOZERO"}
INIT Init
NEXT Next
INVARIANTS TypeOK RoundTrip NoLeadColon Fits OwnParser Idempotent PatternOK
