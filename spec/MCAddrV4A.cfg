CONSTANTS
  NC = 3
  Bug = {"V4A"}
INIT Init
NEXT Next
INVARIANTS TypeOK RoundTrip NoLeadColon Fits OwnParser Idempotent PatternOK
